#!/usr/bin/env python3
"""Run the repository's baseline test command (guard OFF) on a tree and compare
with /root/.vp/BASELINE.json's stable_pass list.
usage: tools_baseline.py [REPO_DIR]   (default /repo)"""
import json, os, subprocess, sys, tempfile, xml.etree.ElementTree as ET
repo = sys.argv[1] if len(sys.argv) > 1 else "/repo"
base = json.load(open("/root/.vp/BASELINE.json"))
out = tempfile.mkdtemp(prefix="baseline.", dir="/verif/out")
xml = os.path.join(out, "junit.xml")
env = dict(os.environ); env.pop("LASIO_VERIF", None)
env["PYTHONPATH"] = repo
p = subprocess.run(["/venv/bin/python", "-m", "pytest", "-q", "-p", "no:cacheprovider", "--timeout=900",
                    "--continue-on-collection-errors", "--junitxml=" + xml],
                   cwd=repo, env=env, stdout=subprocess.PIPE, stderr=subprocess.STDOUT, text=True)
passed = set()
for tc in ET.parse(xml).getroot().iter("testcase"):
    if not any(ch.tag in ("failure", "error", "skipped") for ch in tc):
        passed.add(tc.get("classname") + "::" + tc.get("name"))
missing = [t for t in base["stable_pass"] if t not in passed]
print(p.stdout.strip().splitlines()[-1])
print("stable baseline tests passing: %d/%d" % (len(base["stable_pass"]) - len(missing), len(base["stable_pass"])))
for m in missing: print("  NOT PASSING:", m)
import shutil; shutil.rmtree(out, ignore_errors=True)
sys.exit(1 if missing else 0)
