#!/usr/bin/env python3
"""Regenerate /verif/MANIFEST.json from the table below (single source of truth
for what is claimed).  Run after adding/removing a check."""
import json
import os
import subprocess

HERE = os.path.dirname(os.path.abspath(__file__))

# property -> (category, technique, text, note) ; only built checks are listed
BUILT = {
    "C14": (
        "model_checking",
        "explicit-state BFS over operation histories on real LASFile objects, list reference model in lock-step",
        "Every history of curve-editing operations up to the stated depth (3 quick / 4 thorough) over a small "
        "argument alphabet, from fresh, read and paired roots, is executed on the real LASFile and on a plain list "
        "model; all views (keys/values/items/index/data/int and mnemonic indexing) are compared after every "
        "transition, undefined operations must raise and change nothing, the untouched object of a pair must keep "
        "its full snapshot. Exhaustive within the bound; canonical-state dedup with a stated soundness argument.",
        "Trusts: the list model (60 lines, in the check), numpy array equality, that histories beyond the depth bound "
        "add no new canonical transitions (states vs transitions are reported so saturation is visible).",
    ),
}

BUILT["C02"] = (
    "exploration",
    "exhaustive enumeration of data-section layouts (full product of interacting axes + k-deviation ball), differential numpy vs normal engine on the real reader",
    "Every generated layout of an unwrapped numeric data section (rows/cols 1..4, 12 numeric spellings, separators, "
    "padding, blank/comment/whitespace-only lines before/between/after the rows, ~A last or followed by ~P/~O/custom "
    "sections, section order, LF/CRLF, final newline or not) is read with both engines; they must both raise or return "
    "bit-identical curves, NaN masks and header sections. Non-vacuity is measured with the LASIO_VERIF engine trace: only "
    "files whose data really came from the numpy engine count as non-trivial.",
    "Trusts the add-only engine-trace hook and the independent text renderer (lasgen); values outside the 12 spellings and "
    "layouts beyond the stated deviation bound are not covered.",
)

BUILT["C07"] = (
    "exploration",
    "exhaustive enumeration of (declared curves, data columns, rows, wrap cuts, sniff-window positions) on the real reader with coordinate-carrying cells",
    "Every (d declared, c columns, r rows) shape within the bound, unwrapped, and every composition of a wrapped depth "
    "step into physical lines for c == d, both engines, positive and negative cells, rows around the 20-line sniffing "
    "window with a blank/comment at the window edge; cell (i, j) carries 100(i+1)+(j+1) so any shift, merge or reorder "
    "of columns is visible; declared metadata, unnamed surplus curves and NaN-filled missing curves are checked.",
    "Trusts the independent renderer; shapes beyond the bound (d, c <= 6 quick / 9 thorough) are not covered.",
)
BUILT["C05"] = (
    "exploration",
    "exhaustive enumeration of section orders (all 720), title spellings, body shapes and steering decoys within a deviation bound; expected content known by construction",
    "All 720 orders of {~W, ~C, ~P, ~O, custom, ~A} after ~V combined with every single and pair-wise deviation in title "
    "spelling (upper/lower letter, word, trailing text), body shape (empty, trailing blank/comment) and one steering "
    "decoy (VERS/WRAP/NULL/DLM placed in ~C, ~P or the custom section); section keys, every item of every section, the "
    "~Other text and the data matrix (NaN exactly at the genuine NULL cell) must equal what the file was rendered from.",
    "Trusts the independent renderer; more than three custom sections and deviations beyond the bound are not covered.",
)

BUILT["C06"] = (
    "exploration",
    "exhaustive enumeration of NULL value x spellings x all 4^6 placements of NULL/near-NULL/ordinary cells x engine x null_policy x wrap x text column, then write->read",
    "For every placement of NULL-equal (two spellings), near-NULL and ordinary tokens over six cells (index column "
    "included), every NULL value/spelling, engine, null_policy in {strict, none}, wrapped or not, with or without a text "
    "column: NaN appears exactly at the non-index NULL-equal cells under strict and nowhere under none, other cells keep "
    "their value, text cells are untouched, and after write()+read() the NaN mask is identical.",
    "Trusts the renderer and float(token) as the expected value; NULL values outside the six listed and other null policies are not covered.",
)
BUILT["C09"] = (
    "exploration",
    "metamorphic exhaustive enumeration: every presentation-only transformation at every applicable site of every base file (generated family + example corpus), canonical results compared",
    "canon(read(T(x))) == canon(read(x)) (strict, both engines) for T in {blank/comment insertion at each line boundary of "
    "header-items and data sections, each whitespace run / pad position changed, trailing/leading blanks per line, CRLF, "
    "no final newline, every re-wrap of wrapped depth steps, re-delimiting with SPACE/TAB/COMMA and padding} applied one "
    "site at a time and all sites at once; thorough adds all pairs of single-site text transformations on a reduced "
    "family and per-site transformations of every corpus file <= 300 lines.",
    "Trusts the line classifier that decides where noise may be inserted (not inside ~O) and the generated family's renderer; compositions of more than two transformations are not covered.",
)

BUILT["C01"] = (
    "exploration",
    "exhaustive enumeration of (curve count, row count) x writer-option deviation ball + full sub-products x engine on the real writer and reader",
    "Every shape (quick: 10 curve counts x 3 row counts; thorough: 1..40 curves x 4 row counts, hence every multiple of "
    "the fields-per-wrapped-line for every width in the alphabet) with cells rotating through a palette spanning the "
    "float64 range, NaN outside the index and the NULL value inside it, is written under every configuration within "
    "2 deviations of the default (11 option axes) plus full products of the interacting axes, and read back with both "
    "engines: curve count/order/mnemonics/rows equal, every finite cell within half a unit of the last printed digit "
    "(computed independently with decimal), NaN <-> NaN, index never nulled.",
    "Trusts Python's % formatting as the definition of 'the last digit the format prints'; wrap=True together with a "
    "COMMA/TAB delimiter is outside the explored space (DESIGN.md observations).",
)
BUILT["C03"] = (
    "exploration",
    "exhaustive enumeration of header item lists (all singles of the field product, ordered pairs/triples over reduced palettes) x section x version x mnemonic_case through write() and read()",
    "Every conformant single item of mnemonic(7) x unit(7) x value(12) x description(6), every ordered pair over a "
    "36-kind palette (each kind in turn the widest, next to empty-unit/empty-value neighbours), duplicates and blanks, "
    "thorough: every ordered triple over 12 kinds and all three mnemonic cases, placed in ~Version, ~Well, ~Curves or "
    "~Parameter, written as 1.2 and 2.0 and read back: same items, order, original mnemonics (case-mapped), units, "
    "values (numerically) and descriptions, same ~Other; only the differences the statement permits are accepted.",
    "Trusts the LASFile/HeaderItem constructors to hold what they are given (snapshot taken before write); field contents outside the palettes are not covered.",
)

BUILT["C11"] = (
    "exploration",
    "exhaustive enumeration of (input file, writer configuration) with 4 read->write cycles on the real reader and writer; canonical content of consecutive cycles compared",
    "Every input (example corpus, generated family incl. DLM and wrap variants, one-step mutations: duplicated/blank/"
    "case-variant mnemonics, .1IN units, emptied values, lengthened fields) under every writer configuration within the "
    "deviation bound is cycled read->write four times; from the first re-read on, header items (numerically) and curve "
    "data must not change; an own output that cannot be read or re-written is reported. Three genuine defects found "
    "this way are recorded as known findings with narrow signatures (RC18, RC25, RC26).",
    "Inputs whose first read or first write raises are outside the statement and skipped (counted).",
)
BUILT["C12"] = (
    "exploration",
    "exhaustive enumeration of (input, read case) x equal-precision writer configurations within a deviation bound; each output read back and compared with the default configuration's",
    "For every input (corpus, generated, mutations, and the ~Well family whose value/description order depends on "
    "version and mnemonic, as 1.2 and 2.0 sources) read with mnemonic_case upper and preserve, every writer "
    "configuration within 2 (quick) / 3 (thorough) deviations over version, wrap, field width, spacers, data width, "
    "mnemonics header and data-section header yields, after reading back, the same header items (VERS/WRAP apart) "
    "and curve data as the default configuration.",
    "Equality with the default for every configuration implies pairwise equality; DLM TAB/COMMA inputs and text samples with blanks are C11's known findings and skipped here.",
)
BUILT["C16"] = (
    "model_checking",
    "explicit-state BFS over histories of edits and writes on real LASFile objects; frame, repeat and truthfulness invariants on every write transition",
    "From two dozen roots (scratch and read LASFiles: increasing/decreasing/irregular/single-sample index, units present or "
    "not, STOP/STRT disagreeing with data, 1.2, wrapped, text curve, duplicates) every history up to depth 3 (quick) / "
    "4 (thorough) over 11 write configurations and 9 edits is executed; each write must (a) change nothing outside the "
    "statement's allow-list (full snapshot diff), (b) be byte-identical and side-effect free when it repeats the "
    "previous write, (c) when the index is dirty, state STRT/STOP/STEP and units truthfully in read(output).",
    "index_initial (private change-detection anchor) is not protected content; truthfulness only required under the statement's trigger.",
)

BUILT["C04"] = (
    "exploration",
    "exhaustive enumeration of header lines (field palettes x padding patterns x section kinds + special-form families) through read_header_line and lasio.read",
    "All field combinations x 6 section kinds x every padding pattern with at most two non-default pads (plus the "
    "all-padded line) - more than 18 million lines - and the complete special-form families (time values for all 24 hours with "
    "dates and colon-bearing ~Parameter descriptions, no-period lines, '1000 lbf' units) must parse to exactly the four "
    "stripped fields; thorough adds the full 5^6 pad product on a reduced palette; a second family goes through "
    "lasio.read and compares the resulting items.",
    "Field contents outside the palettes are not covered; preconditions are the statement's own (listed in the evidence assumptions).",
)
BUILT["C08"] = (
    "exploration",
    "exhaustive enumeration of all strings up to length 5 over a 17-symbol alphabet against an independent hand-written literal scanner, through the per-line parsing seam and through lasio.read",
    "Every string of length <= 5 over digits, signs, marks, exponent letters, underscore, blank, letters and ':' '/' "
    "(1.5 million per section kind) is parsed as the value of an item in ~Well and ~Parameter (length <= 4 in ~Well 1.2, "
    "~Version, custom, ~Curves), every string of length <= 3 under X/API/UWI/api/Uwi through lasio.read, plus a trap list "
    "(inf, nan, hex, overflow, 2^63 edges, non-ASCII digits, grouped digits): numbers exactly for plain finite decimal "
    "literals with the right integer/float type, verbatim otherwise, API/UWI verbatim outside ~Parameter, ~Curves values verbatim.",
    "The three-way classification treats '5.', '.5', '5,', ',5' as ambiguous (either outcome accepted).",
)
BUILT["C19"] = (
    "exploration",
    "exhaustive enumeration of junk lines (all strings up to length 3/4 over a 15-symbol alphabet + adversarial long lines) x every insertion site x flag on/off, singles and pairs",
    "Every junk line of length <= 3 (thorough 4) plus long adversarial lines inserted at every line boundary of ~V, ~W, "
    "~P and the custom sections of five base files (incl. duplicated mnemonics, version 1.2, LAS 3.0 and terse lines), and all pairs of short "
    "junk lines at all site pairs: with ignore_header_errors no exception, every genuine item present in order with "
    "unchanged original mnemonic/unit/value/description, curve data bit-identical; without the flag either the same "
    "result or LASHeaderError naming the junk line.",
    "Junk cannot spell the steering mnemonics or start with '~' (statement's exclusion).",
)

BUILT["C13"] = (
    "model_checking",
    "explicit-state BFS over operation histories on real SectionItems (directly and through LASFile.curves) with a lock-step list of original mnemonics; six invariants per state",
    "Every history up to depth 3 (quick) / 4 (thorough) of append, insert, delete by index/key, set_item and rename + "
    "assign_duplicate_suffixes over the names {A, a, B, blank, 'A:1', 'A:2', UNKNOWN} from seven roots (empty, "
    "case-insensitive, LASFile.curves, sections read with each mnemonic_case) is executed on the real object; in every "
    "state: distinct session names, resolution by item/attribute/LASFile access to the item's own object, UNKNOWN for "
    "blanks, :1..:n numbering after insertions with nothing else renamed, originals untouched, and for file-safe "
    "states a write->read round trip reproducing originals and session names. The literal-suffix collision (RC11) is "
    "a recorded known finding.",
    "Stale suffixes after deletions are allowed (statement only prescribes numbering after insertions).",
)
BUILT["C15"] = (
    "model_checking",
    "explicit-state exploration of sections built by operation histories; in every distinct state every probe key is tried through every access path against a first-match reference",
    "In each of the states reachable by histories of depth <= 3 (quick) / 5 (thorough) from 15 roots, 20 probe keys "
    "(present, absent, other case, blank, UNKNOWN, integer-like text, suffix forms, list-method names) go through "
    "membership, item access, attribute access, get(), get(add=True), value assignment and deletion, plus integer "
    "keys and slices; each must agree with 'first item whose session mnemonic equals the key under the section's "
    "comparison', raise KeyError when absent, and change exactly what the statement says.",
    "Attribute access only for names Python routes to __getattr__.",
)
BUILT["C17"] = (
    "exploration",
    "exhaustive enumeration of objects (corpus, generated, mutations, all short-history section states) x copiers (pickle protocols 0-5, deepcopy) x granularity (LASFile, section, item) with strict canonical comparison, write() comparison and two-way independence mutations",
    "Every example file that reads, the generated family and its mutations (both mnemonic cases) and every section "
    "state reachable by histories of depth <= 2 (thorough 3) from C13's roots are copied with pickle protocols 0..5 and "
    "copy.deepcopy at LASFile, section and item level: strict canonical equality incl. session and original mnemonics, "
    "dtypes, index_unit and comparison mode, byte-identical write(), original untouched by copying, and four mutations "
    "applied to the copy (resp. the original) leave the other object unchanged.",
    "copy.copy is outside the statement.",
)

BUILT["C10"] = (
    "model_checking",
    "exhaustive channel x encoding x EOL product against the plain-string reference, plus stateless exploration of every history of reads/mutations/writes/copies up to a depth bound with observations compared to digests from a separate fresh interpreter",
    "Part 1: texts with non-ASCII header content through six input channels, eight storage/encoding settings and "
    "LF/CRLF/CR give strictly equal canonical results. Part 2: every history up to depth 3 (quick) / 4 (thorough) over 32 "
    "operations (reads from string/path/with other options, mutations of header values, default items, sections, curve "
    "names, data in place, append/delete, writes with options, fresh LASFile mutate/write, pickle, deepcopy) is executed "
    "in one interpreter; afterwards fresh reads of both texts, a fresh LASFile, a default write and the module-level "
    "tables must hash to the digests a fresh interpreter produces.",
    "Encodings outside the list are not covered; histories are enumerated without state pruning (hidden aliasing is the target).",
)
BUILT["C18"] = (
    "exploration",
    "exhaustive enumeration of objects x export option products x index-unit spellings, each output decoded by an independent reader (json strict, csv, openpyxl, pandas)",
    "Hand-made LASFile objects and every object read from the shared input families (default, scratch with NaN/extreme values, single row, read files with integer/float/text "
    "header values, text curves, duplicates and blanks, header-only) are exported as JSON (strict parser, every header "
    "value and sample compared, NaN as null), CSV for the full 144-combination option product (header rows, record "
    "count, every field parsed back), Excel (both sheets re-read with openpyxl), df()/set_data_from_df; the depth "
    "views are checked for every DEPTH_UNITS member in upper/lower/title case on each of STRT/STOP/STEP/first curve "
    "individually and jointly, all conflicting pairs, non-members and forced index_unit.",
    "Trusts json, csv, openpyxl and pandas as decoders.",
)
BUILT["C20"] = (
    "fault_enumeration",
    "clean-run I/O trace recording through builtins.open/io.open interposition, then OSError injected at every recorded operation of every call scenario; input-induced failure classes enumerated",
    "For 90 call scenarios (read of plain/BOM/latin-1/wrapped/inner-~A files via str and pathlib paths under chardet, "
    "ad-hoc and explicit encodings; write(path)/to_csv(path) with options; caller-supplied file objects; no sections, "
    "LiDAR magic, header error, reshape error, strict decoding error, missing file, write()/to_csv() raising after "
    "open) the clean run's proxied operations are counted and the call repeated with an OSError at operation k for every "
    "k; with the exception object still alive every file lasio opened must be closed, caller objects open, and the "
    "LASFile must hold no open handle.",
    "Faults are raised at call boundaries of read/readline/iteration/seek/tell/write on lasio-opened files only.",
)

PENDING_REASON = "check not built yet in this round (design in DESIGN.md section 3); nothing is claimed for it"


def rule_of(pid):
    """The RULE string of the check module (the explored space as built), read without importing the module."""
    import ast
    path = os.path.join(HERE, "lasiomc", "checks", "c%s.py" % pid[1:])
    tree = ast.parse(open(path).read())
    for node in tree.body:
        if isinstance(node, ast.Assign) and any(getattr(t, "id", None) == "RULE" for t in node.targets):
            return ast.literal_eval(node.value)
    return ""


def main():
    props = [json.loads(l) for l in open(os.path.join(HERE, "properties.jsonl"))]
    try:
        hook_commits = subprocess.run(
            ["git", "-C", "/repo", "log", "--format=%h", "--grep=^hook:"],
            stdout=subprocess.PIPE, text=True).stdout.split()
    except Exception:
        hook_commits = []
    checks = []
    na = []
    for p in props:
        pid = p["id"]
        if pid in BUILT:
            cat, tech, text, note = BUILT[pid]
            checks.append({
                "property_id": pid,
                "quick_cmd": "./vcheck %s quick" % pid,
                "thorough_cmd": "./vcheck %s thorough" % pid,
                "evidence_file": "/verif/evidence/%s.json" % pid,
                "replay_cmd_template": "./vcheck %s --replay {path}" % pid,
                "engine": "lasiomc",
                "level_claimed": {"category": cat, "text": text + " || Explored space as built (the check's own RULE, also in the evidence file): " + rule_of(pid),
                                  "design_ref": "DESIGN.md section 3 (%s) and section 9 (as built)" % pid},
                "level_note": note,
                "technique": tech,
            })
        else:
            na.append({"property_id": pid, "reason": PENDING_REASON})
    manifest = {
        "version": 1,
        "setup_cmd": "mkdir -p /verif/out /verif/evidence && /venv/bin/python -c 'import sys; sys.path.insert(0, \"/repo\"); import lasio, numpy'",
        "hooks": {
            "guard": "LASIO_VERIF",
            "enable": "LASIO_VERIF=1 in the environment of the process importing lasio from /repo (vcheck sets it); pure Python, no build step",
            "baseline_off_cmd": "cd /repo && env -u LASIO_VERIF /venv/bin/python -m pytest -ra -q -p no:cacheprovider --timeout=900 --continue-on-collection-errors",
            "source_commits": hook_commits,
            "add_only": True,
        },
        "engines": [{
            "name": "lasiomc",
            "path": "/verif/lasiomc",
            "serves_properties": sorted(BUILT),
            "kind_free_text": "hand-written bounded exhaustive explorers for Python: E1 input-space enumerator with deviation "
                              "bounds, E2 explicit-state BFS over operation histories with lock-step reference models, E3 "
                              "I/O fault-point enumerator; all run the real lasio code imported from /repo's working tree",
        }],
        "checks": checks,
        "not_applicable": na,
        "notes": "Entry point ./vcheck <Cxx> quick|thorough [--replay FILE]; VERIF_REPO points the checks at another tree; "
                 "known findings in /verif/known_findings.json; see DESIGN.md.",
    }
    with open(os.path.join(HERE, "MANIFEST.json"), "w") as f:
        json.dump(manifest, f, indent=1)
        f.write("\n")
    print("MANIFEST.json: %d checks, %d not_applicable" % (len(checks), len(na)))


if __name__ == "__main__":
    main()
