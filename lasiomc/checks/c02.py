"""C02 - the fast (numpy) and the reference (normal) data engines return
identical curves.  E1: exhaustive walk over layouts of an unwrapped,
blank/tab separated data section; every file is read with both engines."""
import itertools

import numpy as np

import lasio

from ..core import canon, lasgen, space

PROPERTY = "C02"
LEVEL = "exploration"
RULE = (
    "files are rendered from (rows, cols, numeric spellings, separator, leading/trailing padding, noise lines "
    "before/between/after the rows, what follows ~A, order of the sections before ~A, EOL, final newline, DLM absent or TAB with 1..3 tabs / padded tabs as separator, 20..25 blank or comment lines ahead of the first row); "
    "enumeration = full product of the layout axes that interact in the engines (rows x cols x noise-after x "
    "follows x final-newline x EOL x noise-before) plus every <=k-deviation point of all axes; each file is read "
    "with engine='numpy' and engine='normal'; a case is non-trivial when the LASIO_VERIF engine trace shows the "
    "numpy engine delivered the data itself (no fallback)"
)
ASSUMPTIONS = [
    "WRAP NO, one depth step per line, plain decimal spellings only (the property's precondition)",
    "the curves declared in ~C are all / one fewer than / none of / one more than the data columns",
    "the engine trace hook (LASIO_VERIF=1) reports the engine truthfully; it is 3 add-only lines next to the calls",
]

SPELL = ["7", "-3", "+2", "1.5", "-0.25", ".5", "5.", "1e3", "1.5E-02", "-0.0", "0012", "-999.25", "9999.25", "-9999.25", "999.25"]
NOISE = {
    "none": [],
    "blank": [""],
    "comment": ["#c"],
    "blank2": ["", ""],
    "comment_blank": ["#c", ""],
    "spaces": ["   "],
    "icomment": ["  # indented comment"],
    # the column sniff looks at the first 21 physical lines of the section only
    "blank20": [""] * 20, "blank21": [""] * 21, "comment25": ["#c"] * 25, "mixed22": ["", "#c"] * 11,
    "tcomment": ["\t#c"],
}
FOLLOWS = {
    "nothing": [],
    "P": [["~P", lasgen.item_line("X", "", "1", "x"), lasgen.item_line("Y", "U", "abc", "y")]],
    "O": [["~O", "free text 1 2 3", "4 5 6"]],
    "custom": [["~Xtra", lasgen.item_line("Q", "", "9", "q")]],
    "P_O": [["~P", lasgen.item_line("X", "", "1", "x")], ["~O", "7 8 9"]],
    "P_empty": [["~P"]],
}
PRE_ORDER = {"VWCP": "VWCP", "VWPC": "VWPC", "VCWP": "VCWP", "VWC": "VWC"}

AXES_QUICK = [
    ("rows", [2, 1, 3]),
    ("cols", [2, 1, 3]),
    ("rot", [0, 3, 7, 11]),
    ("sep", [" ", "   ", "\t", " \t"]),
    ("lead", ["", "  ", "\t"]),
    ("trail", ["", "  ", "\t"]),
    ("before", ["none", "blank", "comment"]),
    ("between", ["none", "blank", "comment"]),
    ("after", ["none", "blank", "comment"]),
    ("follows", ["nothing", "P", "O", "custom", "P_O"]),
    ("pre", ["VWCP", "VWPC", "VCWP"]),
    ("eol", ["\n", "\r\n"]),
    ("final_nl", [True, False]),
]
AXES_THOROUGH = [
    ("rows", [2, 1, 3, 4]),
    ("cols", [2, 1, 3, 4]),
    ("rot", list(range(12))),
    ("sep", [" ", "   ", "\t", " \t"]),
    ("lead", ["", "  ", "\t"]),
    ("trail", ["", "  ", "\t"]),
    ("before", ["none", "blank", "comment", "blank2", "comment_blank", "spaces", "icomment", "tcomment", "blank20", "blank21", "comment25", "mixed22"]),
    ("between", ["none", "blank", "comment", "blank2", "comment_blank", "spaces", "icomment", "tcomment"]),
    ("after", ["none", "blank", "comment", "blank2", "comment_blank", "spaces", "icomment", "tcomment"]),
    ("follows", ["nothing", "P", "O", "custom", "P_O", "P_empty"]),
    ("pre", ["VWCP", "VWPC", "VCWP", "VWC"]),
    ("eol", ["\n", "\r\n"]),
    ("final_nl", [True, False]),
    ("dlm", [None, "TAB"]),
    # curves declared in ~C relative to the data columns: all of them, one fewer, none, one more
    ("declared", ["all", "fewer", "none", "more"]),
    # reads of ANOTHER file with list-valued policies before the two reads that are compared (nothing they do may
    # carry over into a later default read)
    ("prelude", [None, "null-list", "read-list", "both-lists"]),
    # the ~Well NULL value (the spellings palette holds 0-valued, 7-valued and -999.25 cells)
    ("null", ["-999.25", "0", "7", "0.0"]),
]
CORE = ["rows", "cols", "before", "after", "follows", "eol", "final_nl"]
DEV = {"quick": 3, "thorough": 4}


def bounds(tier):
    axes = AXES_THOROUGH
    return {"axes": {n: [repr(v) for v in vals] for n, vals in axes}, "deviation_bound": DEV[tier],
            "full_product_over": CORE, "spellings": SPELL}


def points(tier):
    axes = AXES_THOROUGH
    core_axes = [(n, v) for n, v in axes if n in CORE]
    rest = {n: v[0] for n, v in axes if n not in CORE}

    def core_full():
        for pt in space.full(core_axes):
            d = dict(rest)
            d.update(pt)
            yield d

    return list(space.union_points(core_full(), space.deviations(axes, DEV[tier])))


def build_text(pt):
    rows, cols = pt["rows"], pt["cols"]
    toks = [[SPELL[(i * cols + j + pt["rot"]) % len(SPELL)] for j in range(cols)] for i in range(rows)]
    curves = [("C%d" % j, "", "", "curve %d" % j) for j in range(cols)]
    decl = pt.get("declared", "all")
    if decl == "fewer":
        curves = curves[:-1]
    elif decl == "none":
        curves = []
    elif decl == "more":
        curves = curves + [("CX", "", "", "declared without a column")]
    pre = {
        "V": lasgen.version_section("2.0", "NO", dlm=pt.get("dlm")),
        "W": lasgen.well_section(pt.get("null", "-999.25"), extra=[lasgen.item_line("WELL", "", "w1", "well")]),
        "C": lasgen.curve_section(curves),
        "P": ["~Parameter", lasgen.item_line("P1", "", "3", "p")],
    }
    secs = [pre[k] for k in pt["pre"]]
    data = ["~A"] + list(NOISE[pt["before"]])
    sep = pt["sep"]
    if pt.get("dlm") == "TAB":
        # the declared delimiter names the separator: one tab, several tabs, tab with padding blanks
        sep = {" ": "\t", "   ": "\t\t", "\t": "\t\t\t", " \t": " \t "}[sep]
    rws = lasgen.data_rows(toks, sep, pt["lead"], pt["trail"])
    for i, r in enumerate(rws):
        if i:
            data.extend(NOISE[pt["between"]])
        data.append(r)
    data.extend(NOISE[pt["after"]])
    secs.append(data)
    secs.extend(FOLLOWS[pt["follows"]])
    return lasgen.render(secs, pt["eol"], pt["final_nl"]), toks


def observe(text, engine):
    try:
        las = lasio.read(text, engine=engine)
    except Exception as e:
        return ("raise", type(e).__name__, str(e)[:120]), None
    try:
        arrs = [np.asarray(c.data) for c in las.curves]
        tag = (
            tuple(canon.array_tag(a, "strict") for a in arrs),
            canon.las_tag(las, "strict", data=False)["sections"],
        )
    except Exception as e:  # pragma: no cover
        return ("raise-in-observe", type(e).__name__, str(e)[:120]), None
    return ("ok", tag), las


def expected_matrix(toks):
    out = []
    for r in toks:
        out.append([float(t) for t in r])
    return out


PRELUDE_TEXT = ("~V\nVERS. 2.0 :\nWRAP. NO :\n~W\nSTRT.M 1 :\nSTOP.M 2 :\nSTEP.M 1 :\nNULL. -999.25 :\n~C\nD.M :\nG. :\n~A\n"
                "1 5.5\n2 -999.25\n")
PRELUDES = {
    "null-list": [{"null_policy": ["NULL", "9999.25", "(null)"]}],
    "read-list": [{"read_policy": ["comma-decimal-mark", "run-on(-)"]}],
    "both-lists": [{"null_policy": [-999.25, "NULL", "999.25"], "read_policy": ["run-on(.)", "comma-decimal-mark"]},
                   {"null_policy": "all", "read_policy": "comma-delimiter", "engine": "normal"}],
}


def check_point(pt):
    from ..core import inputs as _inputs
    _inputs.process_prelude()   # explored in a process that has already read many other files (see core/inputs.py)
    text, toks = build_text(pt)
    for kw in PRELUDES.get(pt.get("prelude"), []):
        try:
            lasio.read(PRELUDE_TEXT, **kw)
        except Exception:
            pass
    a, las_a = observe(text, "numpy")
    b, las_b = observe(text, "normal")
    trace = getattr(las_a, "_verif_engine_trace", None) if las_a is not None else None
    numpy_did_it = bool(trace) and all(t[0] == "numpy" for t in trace)
    vio = []
    if a != b:
        def short(o, las):
            if o[0] != "ok":
                return o
            return {"data": [np.asarray(c.data).tolist() for c in las.curves], "sections": list(las.sections.keys())}

        clause = "engines-differ"
        if a[0] != "ok" or b[0] != "ok":
            clause = "one-engine-raises"
        vio.append({
            "clause": clause,
            "sig": classify(pt, a, b),
            "witness": {"point": pt, "text": text},
            "expected": {"normal": short(b, las_b)},
            "observed": {"numpy": short(a, las_a), "trace": trace},
            "size": pt.get("_dev", 9) * 100 + len(text),
            "repro": "import lasio; t=%r; print(lasio.read(t,engine='numpy').data, lasio.read(t,engine='normal').data)" % text,
        })
    both_correct = False
    if a == b and a[0] == "ok":
        exp = expected_matrix(toks)
        try:
            got = las_a.data
            m = np.array(exp)
            m[:, 1:][m[:, 1:] == float(pt.get("null", "-999.25"))] = np.nan
            if pt.get("declared") == "more":
                m = np.hstack([m, np.full((m.shape[0], 1), np.nan)])
            both_correct = got.shape == m.shape and np.array_equal(np.isnan(got), np.isnan(m)) and np.array_equal(
                np.nan_to_num(got), np.nan_to_num(m))
        except Exception:
            both_correct = False
    return vio, numpy_did_it, a[0] + "/" + b[0], both_correct


def classify(pt, a, b):
    """Coarse discriminator used for grouping and known-finding matching."""
    feats = []
    if pt["follows"] != "nothing":
        feats.append("inner-section")
    if pt["rows"] == 1:
        feats.append("one-row")
    if pt["cols"] == 1:
        feats.append("one-col")
    if pt["after"] != "none":
        feats.append("noise-after")
    if pt["before"] != "none":
        feats.append("noise-before")
    kind = "raise" if (a[0] != "ok" or b[0] != "ok") else "differ"
    return kind + ":" + "+".join(feats)


UNIT = 400
_PTS = {}


def units(tier, seed):
    _PTS[tier] = points(tier)  # computed once, inherited by the forked workers
    n = len(_PTS[tier])
    return [{"tier": tier, "range": list(r)} for r in space.chunks(n, UNIT)]


def run_unit(unit):
    tier = unit["tier"]
    if tier not in _PTS:
        _PTS[tier] = points(tier)
    pts = _PTS[tier][unit["range"][0]:unit["range"][1]]
    res = {"evals": 0, "nontrivial": 0, "outcomes": {}, "violations": [], "samples": [], "extra": {}}
    for pt in pts:
        vio, nontriv, oc, both_correct = check_point(pt)
        res["evals"] += 2
        res["nontrivial"] += 1 if nontriv else 0
        res["outcomes"][oc] = res["outcomes"].get(oc, 0) + 1
        res["extra"]["numpy_fallbacks"] = res["extra"].get("numpy_fallbacks", 0) + (0 if nontriv else 1)
        res["extra"]["both_correct"] = res["extra"].get("both_correct", 0) + (1 if both_correct else 0)
        res["violations"].extend(vio)
    if pts:
        res["samples"].append({"point": {k: v for k, v in pts[0].items()}, "text": build_text(pts[0])[0]})
    res["violations"] = _compress(res["violations"])
    return res


def _compress(vs):
    best = {}
    for v in vs:
        k = (v["clause"], v["sig"])
        if k not in best:
            best[k] = dict(v, count=0)
        c = best[k]["count"] + 1
        if v["size"] < best[k]["size"]:
            best[k] = dict(v)
        best[k]["count"] = c
    return list(best.values())


def replay(witness):
    vio, _, _, _ = check_point(witness["point"])
    return vio
