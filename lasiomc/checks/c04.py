"""C04 - header line grammar: parsing inverts formatting under any padding.
E1: every combination of field contents x padding patterns x section kind,
through read_header_line, plus a smaller family through lasio.read."""
import itertools

import lasio
from lasio import reader

from ..core import e1

PROPERTY = "C04"
LEVEL = "exploration"
RULE = (
    "lines 'p0 MNEM p1 . UNIT p2 VALUE p3 : p4 DESCR p5' for every (mnemonic(8), unit(15), value(14), description(7)) x "
    "section kind {Version, Well, Curves, Parameter, custom title, None} x padding patterns (quick: every pattern with "
    "at most two non-default pads plus the all-padded line; thorough: the full product of the six pad positions over a "
    "reduced field palette), each pad in {'', ' ', '   ', tab, ' tab '}; special forms: time-like values HH:MM[:SS] "
    "for all 24 hours with/without dates and colon-bearing ~Parameter descriptions, no-period lines NAME : VALUE, "
    "numeric unit '1000 lbf'; oracle: read_header_line returns exactly the four stripped fields; a second family goes "
    "through lasio.read (4 title spellings per section kind, versions 1.2/2.0, three mnemonic cases, the special forms under every title); non-trivial = line with at least one non-empty field besides the mnemonic"
)
ASSUMPTIONS = [
    "p2 (unit/value gap) is non-empty when the value is non-empty (the unit ends at the first blank)",
    "no purely numeric unit followed by exactly one blank (that is the documented '1000 lbf' form, tested separately)",
    "outside ~Parameter descriptions carry no colon; inside ~Parameter a colon-bearing description has its separator set off by blanks",
    "units have interior dots/colons only; '..' forms are not part of the property",
]

MNEMS = ["A", "AB12", "A B", "ÅÄ", "A_1-2", "A(1)", "A#", "RUN  NO"]
UNITS = ["", "m", "K/M3", "hh:mm", "ft.lbf", "°C", "%", "m/s2", "(m)", "[m]", "1000 lbf", "[0,1)", "(m]", "1/32", "m[2]"]
VALUES = ["", "x", "12", "1.5", "a b", "'q'", '"q"', "(b)", "12-34-12-34W5M", "1.5.2", "a.b", "100 ft", "SEC 12,34 W5M", "(1,2)"]
DESCRS = ["", "d", "a b", "(x) y", "1 d", "d.e", "2.5 x"]
SECTIONS = ["Version", "Well", "Curves", "Parameter", "~Custom Section", None]
PADS = ["", " ", "   ", "\t", " \t "]


def pad_patterns(max_dev):
    """Pad tuples (p0..p5); p2 default is ' ' (a placeholder 'D' resolved per line)."""
    base = ["", "", "D", "", "", ""]
    out = [tuple(base)]
    alts = {i: [p for p in PADS if p != ""] for i in range(6)}
    alts[2] = ["   ", "\t", " \t ", ""]  # '' only used when the value is empty
    for d in range(1, max_dev + 1):
        for pos in itertools.combinations(range(6), d):
            for combo in itertools.product(*[alts[i] for i in pos]):
                p = list(base)
                for i, v in zip(pos, combo):
                    p[i] = v
                out.append(tuple(p))
    out.append((" ", " \t ", "   ", "\t", " ", "   "))
    return out


def bounds(tier):
    return {"mnemonics": MNEMS, "units": UNITS, "values": VALUES, "descriptions": DESCRS, "sections": [str(s) for s in SECTIONS],
            "pads": PADS, "pad_patterns": len(pad_patterns(2)) if tier == "quick" else "2-dev on full palette + full 5^6 on reduced palette"}


def points(tier):
    pts = []
    for mi in range(len(MNEMS)):
        for ui in range(len(UNITS)):
            for si in range(len(SECTIONS)):
                pts.append(["grid", mi, ui, si, 2])
    if tier == "thorough":
        for mi in (0, 2, 3):
            for ui in (0, 1, 3, 4):
                for si in range(len(SECTIONS)):
                    for vi in range(len(VALUES)):
                        pts.append(["full", mi, ui, si, vi])
    for hour in range(24):
        pts.append(["time", hour])
    pts.append(["noperiod"])
    pts.append(["numunit"])
    for si in range(4):
        for vers in ("2.0", "1.2", "3.0"):
            for case in ("preserve", "upper", "lower"):
                for ti in range(len(TITLE_FORMS)):
                    pts.append(["viaread", si, vers, case, ti])
    return pts


def make_line(mn, unit, value, descr, pads):
    p = list(pads)
    if p[2] == "D":
        p[2] = " " if value else ""
    return "%s%s%s.%s%s%s%s:%s%s%s" % (p[0], mn, p[1], unit, p[2], value, p[3], p[4], descr, p[5])


def admissible(unit, value, descr, pads, section):
    if value and pads[2] == "":
        return False
    if ":" in descr:
        if section != "Parameter":
            return False
        if pads[3] == "" or pads[4] == "":
            return False
    return True


def run_lines(lines_iter):
    """lines_iter yields (line, section, expected dict). Returns violations, counts.
    The line parsed just before is kept in the witness: read_header_line must be a pure function of
    its arguments, and a violation that needs a particular predecessor is replayed with it."""
    vio = []
    n = 0
    nontriv = 0
    prev = None
    for line, section, exp in lines_iter:
        n += 1
        if exp["unit"] or exp["value"] or exp["descr"]:
            nontriv += 1
        try:
            got = reader.read_header_line(line, section_name=section)
        except Exception as e:
            got = {"raise": "%s: %s" % (type(e).__name__, str(e)[:80])}
        if got != exp:
            wrong = [k for k in ("name", "unit", "value", "descr") if got.get(k) != exp[k]] if "raise" not in got else ["raise"]
            vio.append({
                "clause": "fields-differ", "sig": "%s|sec=%s" % ("+".join(wrong), section if section in SECTIONS[:4] else ("custom" if section else "none")),
                "witness": {"line": line, "section": section, "expected": exp, "prev": prev}, "expected": exp, "observed": got,
                "size": len(line),
                "repro": "from lasio.reader import read_header_line; %sprint(read_header_line(%r, section_name=%r))"
                         % (("read_header_line(%r, section_name=%r); " % tuple(prev)) if prev else "", line, section),
            })
        prev = [line, section]
    return vio, n, nontriv


def gen_grid(mi, ui, si, max_dev):
    mn, unit, section = MNEMS[mi], UNITS[ui], SECTIONS[si]
    pats = pad_patterns(max_dev)
    for value in VALUES:
        for descr in DESCRS:
            exp = {"name": mn, "unit": unit, "value": value, "descr": descr}
            for pads in pats:
                if pads[2] == "" and value:
                    continue
                if not admissible(unit, value, descr, [" " if x == "D" else x for x in pads], section):
                    continue
                yield make_line(mn, unit, value, descr, pads), section, exp


def gen_full(mi, ui, si, vi):
    mn, unit, section, value = MNEMS[mi], UNITS[ui], SECTIONS[si], VALUES[vi]
    for descr in ("", "a b", "2.5 x"):
        exp = {"name": mn, "unit": unit, "value": value, "descr": descr}
        for pads in itertools.product(PADS, repeat=6):
            if value and pads[2] == "":
                continue
            yield make_line(mn, unit, value, descr, pads), section, exp


def gen_time(hour):
    for hh in ({"%d" % hour, "%02d" % hour}):
        for mm in ("00", "15", "59"):
            for ss in (None, "00", "32"):
                t = "%s:%s" % (hh, mm) + (":%s" % ss if ss else "")
                for value in (t, t + " 01-Jan-2020", "2020/01/31 " + t, "13-Jan-20 " + t + " UTC"):
                    for unit in ("", "hh:mm", "m"):
                        for pads in (("", "", " ", " ", " ", ""), ("", "", "   ", "   ", "\t", " "), (" ", " ", "\t", " ", " ", ""),
                                     ("", "", " ", "", " ", ""), ("", "", " ", " ", "", "")):
                            for descr, secs in (("time of day", SECTIONS), ("", SECTIONS), ("Time: start of log", ["Parameter"]),
                                                ("start : end : other", ["Parameter"])):
                                for section in secs:
                                    if ":" in descr and (pads[3] == "" or pads[4] == ""):
                                        continue
                                    if section != "Parameter" and ":" in descr:
                                        continue
                                    exp = {"name": "TIME", "unit": unit, "value": value, "descr": descr}
                                    yield make_line("TIME", unit, value, descr, pads), section, exp


def gen_noperiod():
    for name in ("WELL", "WELL NAME", "Run number", "ÅÄ", "A-1"):
        for value in ("x", "14:00:32", "85.7", "a b c", "12-34", "1.5 m", "", "http://x.y/z", "25.12.1988 14:30", "1.5 at 12:00", "a.b:c"):
            for p in itertools.product(("", " ", "   ", "\t"), repeat=4):
                line = "%s%s%s:%s%s%s" % (p[0], name, p[1], p[2], value, p[3])
                for section in SECTIONS:
                    # a full line first: the period-less form has no unit/description field and must not inherit any
                    yield "ELEV .FT 1234.5 : ground elevation", section, {"name": "ELEV", "unit": "FT", "value": "1234.5", "descr": "ground elevation"}
                    yield line, section, {"name": name, "unit": "", "value": value, "descr": ""}


def gen_numunit():
    # a numeric unit set off from the value by two or more blanks / a blank-tab mix: the number alone is the unit
    for num in ("1000", "5", "0012"):
        for gap in ("  ", "   ", " \t", " \t ", "\t "):
            for value in ("KCL", "x y", "12.5", "°C", "a.b"):
                for descr in ("", "d"):
                    for section in SECTIONS:
                        yield "A.%s%s%s : %s" % (num, gap, value, descr), section, {"name": "A", "unit": num, "value": value, "descr": descr}
    for num in ("1000", "5", "0012"):
        for suffix in ("lbf", "psi", "kg/m3", "°C", "%", "м"):
            unit = "%s %s" % (num, suffix)
            for value in ("", "x", "12.5", "a b"):
                for descr in ("", "d", "a b"):
                    for pads in pad_patterns(1):
                        if value and pads[2] == "":
                            continue
                        for section in SECTIONS:
                            yield make_line("A", unit, value, descr, pads), section, {"name": "A", "unit": unit, "value": value, "descr": descr}


def gen_viaread(si):
    """Binding of the seam to the public API: items of lasio.read(text)."""
    return []


def check_point(pt):
    from ..core import inputs as _inputs
    _inputs.process_prelude()   # explored in a process that has already read many other files (see core/inputs.py)
    kind = pt[0]
    if kind == "grid":
        vio, n, nt = run_lines(gen_grid(pt[1], pt[2], pt[3], pt[4]))
    elif kind == "full":
        vio, n, nt = run_lines(gen_full(pt[1], pt[2], pt[3], pt[4]))
    elif kind == "time":
        vio, n, nt = run_lines(gen_time(pt[1]))
    elif kind == "noperiod":
        vio, n, nt = run_lines(gen_noperiod())
    elif kind == "numunit":
        vio, n, nt = run_lines(gen_numunit())
    else:
        vio, n, nt = via_read(pt[1], pt[2] if len(pt) > 2 else "2.0", pt[3] if len(pt) > 3 else "preserve", pt[4] if len(pt) > 4 else 0)
    return e1.compress(vio), (repr(pt), nt), kind, {kind + "_lines": n}, n


SEC_TITLES = [("Version", "~Version"), ("Well", "~Well"), ("Curves", "~Curve"), ("Parameter", "~Parameter")]
# title spellings of the same section kind (the grammar of a line depends on the KIND of its section, not on how the title is spelt)
TITLE_FORMS = [lambda t: t, lambda t: t.lower() + " information", lambda t: t[:2].lower(), lambda t: t.upper() + " INFORMATION BLOCK"]


def via_read(si, vers="2.0", case="preserve", ti=0):
    """All fields, three pad patterns, through lasio.read: the parsed items must carry the fields
    (units bracket-stripped, numeric-looking values compared as text via str())."""
    key, title = SEC_TITLES[si]
    title = TITLE_FORMS[ti](title)
    vtitle = TITLE_FORMS[ti]("~Version")
    vio = []
    n = 0
    nt = 0
    for pads in (("", "", "D", " ", " ", ""), (" ", " ", "   ", "\t", "   ", " "), ("", "", "\t", "", "", "")):
        for unit in UNITS:
            lines, exps = [], []
            names = list(MNEMS)
            if key == "Well" and case != "preserve":
                # spellings of the four value-first mnemonics of LAS 1.2: after case normalisation they ARE STRT/STOP/STEP/NULL
                names = names + ["Strt", "stoP", "Step", "nuLL"]
            for mi, mn in enumerate(names):
                for vi, value in enumerate(VALUES):
                    descr = DESCRS[(mi + vi) % len(DESCRS)]
                    if value and pads[2] == "":
                        continue
                    if not admissible(unit, value, descr, [" " if x == "D" else x for x in pads], key):
                        continue
                    if mn == "A#" and pads[0] == "":
                        pass
                    lines.append(make_line(mn, unit, value, descr, pads))
                    exps.append((mn, unit, value, descr))
            # the documented special forms, in this section: clock-time values (and, inside ~Parameter, a description with colons)
            if key == "Parameter":
                specials = [("TIML", "hh:mm", "23:15 23-JAN-2001", "Time Logger: At Bottom"), ("TIMC", "", "07:05:59", "a : b : c")]
            else:
                specials = [("TIML", "hh:mm", "23:15", "Time Logger At Bottom"), ("TIMC", "", "07:05:59", "d")]
            for (mn, un, va, de) in specials:
                if unit == UNITS[0]:
                    lines.append(make_line(mn, un, va, de, ("", "", " ", " ", " ", "")))
                    exps.append((mn, un, va, de))
            head = "%s\nVERS. %s : v\nWRAP. NO : w\n" % (vtitle, vers)
            pre = head if key != "Version" else ""
            text = pre + title + "\n" + "\n".join(lines) + "\n~ASCII\n1 2\n"
            if key == "Version":
                text = head + "\n".join(lines) + "\n~ASCII\n1 2\n"
            n += len(lines)
            try:
                las = lasio.read(text, mnemonic_case=case, ignore_data=True)
                items = list(las.sections[key])
                if key == "Version":
                    items = items[2:]
            except Exception as e:
                vio.append({"clause": "via-read-raises", "sig": key, "witness": {"text": text, "si": si, "vers": vers, "case": case, "ti": ti}, "expected": "read succeeds",
                            "observed": "%s: %s" % (type(e).__name__, str(e)[:200]), "size": len(text), "repro": "lasio.read(text)"})
                continue
            if len(items) != len(exps):
                vio.append({"clause": "via-read-count", "sig": key, "witness": {"text": text, "si": si, "vers": vers, "case": case, "ti": ti}, "expected": len(exps),
                            "observed": len(items), "size": len(text), "repro": "lasio.read(text)"})
                continue
            for it, (mn, un, va, de), line in zip(items, exps, lines):
                nt += 1
                eu = un[1:-1] if len(un) >= 2 and ((un[0] == "[" and un[-1] == "]") or (un[0] == "(" and un[-1] == ")")) else un
                mn = {"preserve": mn, "upper": mn.upper(), "lower": mn.lower()}[case]
                if vers == "1.2" and key == "Well" and mn.upper() not in ("STRT", "STOP", "STEP", "NULL"):
                    va, de = de, va  # LAS 1.2 ~Well lines are 'MNEM.UNIT DESCRIPTION : VALUE' except for STRT/STOP/STEP/NULL
                got = (it.original_mnemonic, it.unit, it.descr)
                okv = str(it.value) == va or _numeq(it.value, va)
                if got != (mn, eu, de) or not okv:
                    vio.append({"clause": "via-read-fields", "sig": key, "witness": {"line": line, "section": key, "si": si, "vers": vers, "case": case, "ti": ti},
                                "expected": [mn, eu, va, de], "observed": [it.original_mnemonic, it.unit, repr(it.value), it.descr],
                                "size": len(line), "repro": "lasio.read(...%r...)" % line})
    return vio, n, nt


def _numeq(v, text):
    try:
        return float(v) == float(text)
    except Exception:
        return False


def replay(witness):
    if "line" in witness and "expected" in witness:
        seq = []
        if witness.get("prev"):
            pl, ps = witness["prev"]
            try:
                seq.append((pl, ps, reader.read_header_line(pl, section_name=ps)))  # predecessor: executed, its own result is not judged
            except Exception:
                pass
            reader_prev_done = True
        vio, _, _ = run_lines([(witness["line"], witness["section"], witness["expected"])])
        return vio
    return via_read(witness["si"], witness.get("vers", "2.0"), witness.get("case", "preserve"), witness.get("ti", 0))[0]


def units(tier, seed):
    _P[tier] = points(tier)
    return [{"tier": tier, "i": i} for i in range(len(_P[tier]))]


_P = {}


def run_unit(unit):
    tier = unit["tier"]
    if tier not in _P:
        _P[tier] = points(tier)
    pt = _P[tier][unit["i"]]
    vio, nt, oc, counters, evals = check_point(pt)
    return {"evals": evals, "nontrivial": nt[1], "outcomes": {oc: 1}, "violations": vio,
            "samples": [{"point": pt}], "extra": counters}
