"""C03 - header metadata survives write -> read in every section and both
versions.  E1 over item lists (singles over the full field product, ordered
pairs / triples over reduced palettes) x section x version x mnemonic_case."""
import io
import itertools

import numpy as np

import lasio
from lasio import CurveItem, HeaderItem

from ..core import canon, e1, inputs

PROPERTY = "C03"
LEVEL = "exploration"
RULE = (
    "a LASFile is built through the public API; one section (~Version extras, ~Well, ~Curves, ~Parameter) receives a "
    "generated item list: every single item of the product mnemonic(7) x unit(11) x value(14) x description(6) allowed "
    "by the statement's conformance clause, every ordered pair over a 36-kind palette (so each kind is in turn the "
    "widest of its section and next to empty-unit/empty-value neighbours), thorough: every ordered triple over a "
    "12-kind palette; ~Other variants; written as 1.2 and 2.0, read back with mnemonic_case preserve/upper/lower, and the re-read object written and read once more (same version and case); for pairs the original object is then edited in place (fields of the two items exchanged) and written again, and a narrow twin of the point is written, grown in place to the point's fields and written again; before the first point the process reads many other files (process prelude); "
    "non-trivial = the list holds an item whose unit, value or description is non-empty"
)
ASSUMPTIONS = [
    "conformance clause of the statement (mnemonic without '.'/':'; unit without blanks/'..', not numeric, not bracketed, "
    "no leading/trailing '.'; value/description without ':' and outer blanks; ~Curves values without '..'; blank mnemonic "
    "only when unit, value, description hold no '.')",
    "permitted differences: STRT/STOP/STEP values+units, first-curve unit alignment, ''->0 for an item with a unit "
    "(accepted, not required), VERS/WRAP compared by value",
    "a duplicated STRT/STOP/STEP is generated only in the 6-point sub-space 'dup-step' (known finding RC19)",
]

MNEMS = ["A", "LONGMNEMONIC12", "A B", "Å1", "", "<dup>", "NULL"]
UNITS = ["", "m", "K/M3", "hh:mm", "ft.lbf", "°C", "LONGUNIT123", "1/32", "10^3", "m(TVD)", "[ref]m"]
VALUES = ["", "x", "a b", "it's", "(b) c", "[b]", 12, -1.5, "1e3", 35.5, 7, "a value text 25 chars long", "rev 4,1-b", ("a remark of ninety characters " * 4)[:90].strip()]
DESCRS = ["", "d", "a b", "(x) y", "2 d", "a thirty character description.."[:30], "see remark 2..4", "to be continued.."]
SECTIONS = ["Version", "Well", "Curves", "Parameter"]
OTHERS = ["", "one line of text", "two lines\n\nwith an inner blank line", "#starts with hash\nsecond"]


def conformant(kind, section):
    mn, unit, value, descr = kind
    if mn == "" and any("." in str(x) for x in (unit, value, descr)):
        return False
    if section == "Curves" and ".." in str(value):
        return False
    return True


def all_kinds():
    return [(m, u, v, d) for m in MNEMS if m != "<dup>" for u in UNITS for v in VALUES for d in DESCRS]


def reduced_palette(n):
    """n kinds covering every mnemonic/unit/value/description value at least once, widths of every rank."""
    ks = []
    L = max(len(MNEMS) - 1, len(UNITS), len(VALUES), len(DESCRS))
    ms = [m for m in MNEMS if m != "<dup>"]
    i = 0
    while len(ks) < n:
        k = (ms[i % len(ms)], UNITS[(i * 3 + i // 7) % len(UNITS)], VALUES[(i * 5 + i // 3) % len(VALUES)],
             DESCRS[(i * 7 + i // 5) % len(DESCRS)])
        if k not in ks:
            ks.append(k)
        i += 1
    return ks


def bounds(tier):
    return {"mnemonics": MNEMS, "units": UNITS, "values": [repr(v) for v in VALUES], "descriptions": DESCRS,
            "sections": SECTIONS, "versions": [1.2, 2.0],
            "cases": ["preserve", "upper", "lower"] if tier == "thorough" else ["upper (default)", "preserve/lower on pairs"],
            "pairs_palette": 36, "triples_palette": 12 if tier == "thorough" else 0}


def points(tier):
    pts = []
    kinds = all_kinds()
    cases_single = ["upper"] if tier == "quick" else ["preserve", "upper", "lower"]
    for sec in SECTIONS:
        for ver in (2.0, 1.2):
            for case in cases_single:
                for k in kinds:
                    if conformant(k, sec):
                        pts.append({"sec": sec, "ver": ver, "case": case, "items": [list(k)], "other": 0})
    pal = reduced_palette(36)
    for sec in SECTIONS:
        for ver in (2.0, 1.2):
            for ci, case in enumerate(["upper", "preserve", "lower"]):
                for a, b in itertools.product(pal, repeat=2):
                    if tier == "quick" and case != "upper" and (pal.index(a) + pal.index(b)) % 3 != ci:
                        continue
                    if conformant(a, sec) and conformant(b, sec):
                        pts.append({"sec": sec, "ver": ver, "case": case, "items": [list(a), list(b)], "other": 0})
                # duplicate-of-previous
                for a in pal:
                    if conformant(a, sec) and a[0] != "":
                        pts.append({"sec": sec, "ver": ver, "case": case, "items": [list(a), ["<dup>"] + list(a[1:])], "other": 0})
                        pts.append({"sec": sec, "ver": ver, "case": case,
                                    "items": [list(a), ["<dup>", "", "other value", "other descr"], list(a)], "other": 0})
    # items placed at the FRONT of their section (ahead of VERS / WRAP, ahead of STRT)
    for sec in ("Version", "Well", "Parameter"):
        for ver in (2.0, 1.2):
            for a in pal:
                if conformant(a, sec) and a[0] != "":
                    pts.append({"sec": sec, "ver": ver, "case": "upper", "items": [list(a)], "other": 0, "front": True})
                    pts.append({"sec": sec, "ver": ver, "case": "preserve", "items": [list(a), ["<dup>"] + list(a[1:])], "other": 0, "front": True})
    for oi in range(1, len(OTHERS)):
        for ver in (2.0, 1.2):
            pts.append({"sec": "Parameter", "ver": ver, "case": "upper", "items": [["A", "m", "x", "d"]], "other": oi})
    # sub-space 'dup-step': a second STRT/STOP/STEP item in ~Well (known finding RC19)
    for ver in (2.0, 1.2):
        for mn in ("STRT", "STOP", "STEP"):
            pts.append({"sec": "Well", "ver": ver, "case": "upper", "items": [[mn, "m", 5.0, "second " + mn]], "other": 0})
    pts.append({"sec": "Parameter", "ver": 2.0, "case": "upper", "items": [], "other": 0})
    pts.append({"sec": "Parameter", "ver": 1.2, "case": "upper", "items": [], "other": 0})
    if tier == "thorough":
        pal3 = reduced_palette(12)
        for sec in SECTIONS:
            for ver in (2.0, 1.2):
                for case in ("preserve", "upper", "lower"):
                    for tri in itertools.product(pal3, repeat=3):
                        if all(conformant(k, sec) for k in tri):
                            pts.append({"sec": sec, "ver": ver, "case": case, "items": [list(k) for k in tri], "other": 0})
    return pts


def build(pt):
    las = lasio.LASFile()
    las.well["WELL"].value = "w"
    las.append_curve("DEPT", np.array([1.0, 2.0, 3.0]), unit="m", descr="depth")
    items = []
    prev = None
    for (mn, unit, value, descr) in pt["items"]:
        if mn == "<dup>":
            mn = prev
        prev = mn
        items.append((mn, unit, value, descr))
    sec = pt["sec"]
    if sec == "Curves":
        for j, (mn, unit, value, descr) in enumerate(items):
            las.curves.append(CurveItem(mn, unit, value, descr, np.array([10.0 + j, 20.0 + j, 30.0 + j])))
    else:
        target = {"Version": las.version, "Well": las.well, "Parameter": las.params}[sec]
        for k, (mn, unit, value, descr) in enumerate(items):
            if pt.get("front"):
                target.insert(k, HeaderItem(mn, unit, value, descr))   # ahead of VERS / STRT / the first parameter
            else:
                target.append(HeaderItem(mn, unit, value, descr))
    if sec != "Parameter":
        las.params.append(HeaderItem("P0", "u", 1, "fixed param"))
    las.other = OTHERS[pt["other"]]
    return las


def snapshot(las):
    out = {}
    for name in SECTIONS:
        out[name] = [(i.original_mnemonic, i.unit, i.value, i.descr) for i in las.sections[name]]
    out["Other"] = las.other
    return out


CASEF = {"preserve": lambda s: s, "upper": str.upper, "lower": str.lower}


def compare(pt, before, after, text, V, tag):
    vio = []
    cf = CASEF[pt["case"]]
    strt_unit = None
    for name in SECTIONS:
        want, got = before[name], after[name]
        if len(want) != len(got):
            vio.append(V(tag + "item-count:" + name, [w[0] for w in want], [g[0] for g in got], text))
            continue
        for pos, (w, g) in enumerate(zip(want, got)):
            wm, wu, wv, wd = w
            gm, gu, gv, gd = g
            if gm != cf(wm):
                vio.append(V(tag + "mnemonic:" + name, cf(wm), gm, text))
                break
            special = name == "Well" and wm in ("STRT", "STOP", "STEP")
            if name == "Version" and wm in ("VERS", "WRAP"):
                if wm == "VERS" and canon.value_tag(gv, "numeric") != ("num", float(pt["ver"])):
                    vio.append(V(tag + "vers-value", pt["ver"], gv, text))
                continue
            if special:
                continue
            if name == "Curves" and pos == 0:
                # first-curve unit alignment is permitted
                pass
            elif gu != wu:
                vio.append(V(tag + "unit:" + name, {"item": wm, "unit": wu, "value": wv}, {"unit": gu, "value": gv}, text))
                break
            wt = canon.value_tag(wv, "numeric")
            gt = canon.value_tag(gv, "numeric")
            if wt != gt:
                empty_with_unit = (wv == "" and wu != "" and gt == ("num", 0.0))
                if not empty_with_unit:
                    vio.append(V(tag + "value:" + name, {"item": wm, "unit": wu, "value": wv, "descr": wd}, {"unit": gu, "value": gv, "descr": gd}, text))
                    break
            if gd != wd:
                vio.append(V(tag + "descr:" + name, {"item": wm, "descr": wd, "value": wv}, {"descr": gd, "value": gv}, text))
                break
    if after["Other"] != before["Other"]:
        vio.append(V(tag + "other-text", before["Other"], after["Other"], text))
    return vio


def check_point(pt):
    inputs.process_prelude()
    las = build(pt)
    before = snapshot(las)
    nontriv = any(str(u) or str(v) or str(d) for (_, u, v, d) in pt["items"])
    size = sum(len(str(x)) for it in pt["items"] for x in it) + 50 * len(pt["items"])

    def V(clause, expected, observed, text=None):
        return {"clause": clause, "sig": classify(pt, clause, expected, observed), "witness": {"point": pt, "text": text},
                "expected": expected, "observed": observed, "size": size,
                "repro": "see replay file: items %r appended to ~%s, write(version=%r), read(mnemonic_case=%r)"
                         % (pt["items"], pt["sec"], pt["ver"], pt["case"])}

    try:
        s = io.StringIO()
        las.write(s, version=pt["ver"])
        text = s.getvalue()
    except Exception as e:
        return [V("write-raises", "write succeeds", "%s: %s" % (type(e).__name__, str(e)[:160]))], nontriv, "write-raise", {}, 1
    try:
        back = lasio.read(text, mnemonic_case=pt["case"])
    except Exception as e:
        return [V("read-raises", "own output readable", "%s: %s" % (type(e).__name__, str(e)[:160]), text)], nontriv, "read-raise", {}, 2
    cf = CASEF[pt["case"]]
    after = snapshot(back)
    vio = compare(pt, before, after, text, V, "")
    if vio:
        return vio[:3], nontriv, "ok", {}, 2
    # the same text read with the other two mnemonic_case options, and once more with this point's: each read maps the
    # mnemonics by its own case function only (nothing sticks from a read with another option)
    others = [c for c in ("upper", "preserve", "lower") if c != pt["case"]]
    for oc in others + [pt["case"], pt["case"] + "+ignore_data"]:
        try:
            if oc.endswith("+ignore_data"):
                oc = pt["case"]
                bo = lasio.read(text, mnemonic_case=oc, ignore_data=True)   # header-only read: the same header
            else:
                bo = lasio.read(text, mnemonic_case=oc)
        except Exception as e:
            return [V("read-raises", "own output readable (mnemonic_case=%s)" % oc, "%s: %s" % (type(e).__name__, str(e)[:160]), text)], nontriv, "ok", {}, 3
        vio = compare(dict(pt, case=oc), before, snapshot(bo), text, V, "other-case-read(%s):" % oc)
        if vio:
            return vio[:3], nontriv, "ok", {}, 3
    # second stage: the object that came out of read() is itself a LASFile with conformant fields -
    # writing and reading it again (same version, same case) must return the same items once more
    try:
        s2 = io.StringIO()
        back.write(s2, version=pt["ver"])
        text2 = s2.getvalue()
        back2 = lasio.read(text2, mnemonic_case=pt["case"])
    except Exception as e:
        return [V("second-cycle-raises", "write/read of the re-read object succeed", "%s: %s" % (type(e).__name__, str(e)[:160]), text)], nontriv, "ok", {}, 4
    again = snapshot(back2)
    for name in SECTIONS:
        a = [(m, u, canon.value_tag(v, "numeric"), d) for (m, u, v, d) in after[name]]
        b = [(m, u, canon.value_tag(v, "numeric"), d) for (m, u, v, d) in again[name]]
        if any(m.strip() == "" and any("." in str(f) for f in (u, v, d)) for (m, u, v, d) in after[name]):
            continue  # the statement's proviso: a blank mnemonic only on lines with no further period (1e3 came back as 1000.0)
        if name == "Well":
            a = [x for x in a if x[0].upper() not in ("STRT", "STOP", "STEP")]
            b = [x for x in b if x[0].upper() not in ("STRT", "STOP", "STEP")]
        if a != b:
            vio.append(V("second-cycle:" + name, [list(map(str, x)) for x in a][:6], [list(map(str, x)) for x in b][:6], text2))
    if again["Other"] != after["Other"]:
        vio.append(V("second-cycle:other-text", after["Other"], again["Other"], text2))
    if vio or len(pt["items"]) != 2 or pt["items"][0][0] == "<dup>" or pt["items"][1][0] == "<dup>":
        return vio[:3], nontriv, "ok", {}, 4
    # third stage: the ORIGINAL object, already written once, has two existing items edited in place (their unit,
    # value and description are exchanged, so another item is now the widest of its section; nothing is added or
    # removed) and is written again with the same options
    sect = las.sections[pt["sec"]]
    tgt = list(sect)[-2:]
    (m0, u0, v0, d0), (m1, u1, v1, d1) = pt["items"]
    if [t.original_mnemonic for t in tgt] != [m0, m1]:
        return [V("harness", [m0, m1], [t.original_mnemonic for t in tgt])], nontriv, "ok", {}, 4
    if not (conformant((m0, u1, v1, d1), pt["sec"]) and conformant((m1, u0, v0, d0), pt["sec"])):
        return vio, nontriv, "ok", {}, 4
    tgt[0].unit, tgt[0].value, tgt[0].descr = u1, v1, d1
    tgt[1].unit, tgt[1].value, tgt[1].descr = u0, v0, d0
    before3 = snapshot(las)
    try:
        s3 = io.StringIO()
        las.write(s3, version=pt["ver"])
        text3 = s3.getvalue()
        back3 = lasio.read(text3, mnemonic_case=pt["case"])
    except Exception as e:
        return [V("edited-rewrite-raises", "write/read after an in-place edit succeed", "%s: %s" % (type(e).__name__, str(e)[:160]))], nontriv, "ok", {}, 6
    vio = compare(pt, before3, snapshot(back3), text3, V, "edited-rewrite:")
    if vio:
        return vio[:3], nontriv, "ok", {}, 6
    # fourth stage: a fresh object whose two items start out narrow (no unit, value 'x', no description) is written
    # once, the items are then given the point's fields in place (every column of the section grows), and it is
    # written again: the result must be what a first write of the point gives
    narrow = dict(pt)
    narrow["items"] = [[m0, "", "x", ""], [m1, "", "x", ""]]
    las4 = build(narrow)
    try:
        las4.write(io.StringIO(), version=pt["ver"])
        t4 = list(las4.sections[pt["sec"]])[-2:]
        t4[0].unit, t4[0].value, t4[0].descr = u0, v0, d0
        t4[1].unit, t4[1].value, t4[1].descr = u1, v1, d1
        s4 = io.StringIO()
        las4.write(s4, version=pt["ver"])
        text4 = s4.getvalue()
        back4 = lasio.read(text4, mnemonic_case=pt["case"])
    except Exception as e:
        return [V("grown-rewrite-raises", "write/read after an in-place edit succeed", "%s: %s" % (type(e).__name__, str(e)[:160]))], nontriv, "ok", {}, 8
    vio = compare(pt, before, snapshot(back4), text4, V, "grown-rewrite:")
    return vio[:3], nontriv, "ok", {}, 8


def classify(pt, clause, expected, observed):
    feats = []
    names = [it[0] for it in pt["items"]]
    if pt["sec"] == "Well" and len(pt["items"]) == 1 and names[0] in ("STRT", "STOP", "STEP") and clause == "write-raises" \
            and "KeyError" in str(observed):
        return "dup-step:KeyError"
    if "" in names:
        feats.append("blank-mnemonic")
    if "<dup>" in names or len(set(names)) < len(names):
        feats.append("dup")
    if "NULL" in names and pt["sec"] == "Well":
        feats.append("null-dup-in-well")
    if any(it[2] == "" and it[1] != "" for it in pt["items"]):
        feats.append("empty-value-with-unit")
    feats.append("v%s" % pt["ver"])
    return "+".join(feats)


e1.install(globals(), unit_size=250, sample_of=lambda pt: pt)
