"""C17 - pickle and deepcopy reproduce a LASFile exactly, duplicates included.
E1 over objects (corpus, generated files and mutations, every section state
reachable by short operation histories) x copiers (pickle protocols 0..5,
copy.deepcopy) applied to the LASFile, to each section and to single items."""
import copy
import io
import pickle

import numpy as np

import lasio

from ..core import canon, e1, inputs
from . import c13

PROPERTY = "C17"
LEVEL = "exploration"
RULE = (
    "objects: LASFiles built from scratch (default, with curves, with NaN / None header values on items that have units), every example file that reads, the generated family and its one-step mutations (duplicated / blank / "
    "case-variant mnemonics, text and float curves), read with mnemonic_case upper and preserve and additionally after an in-memory crop of the index, and every section "
    "state reachable by an operation history of depth <= 2 (thorough 3) from C13's seven roots (stale suffixes, literal "
    "'A:1' names included); copiers: pickle protocols 0..5 and copy.deepcopy applied to the LASFile, each section and "
    "the first/last item of each section; scratch objects with 9..130 same-named items; curves re-ordered in memory; both objects written with the same explicit options after the copy was taken and then every header field of one edited; oracle: strict canonical equality (session + original mnemonics, unit, value, "
    "description, arrays with dtype, index_unit, comparison mode), byte-identical write(), and independence under four "
    "mutations in both directions; non-trivial = object holding a duplicated or blank mnemonic, or a text curve"
)
ASSUMPTIONS = [
    "copy.copy (shallow) is not part of the statement",
    "write() comparison is skipped for objects whose own write() raises (counted)",
]

COPIERS = [("pickle%d" % p, (lambda o, p=p: pickle.loads(pickle.dumps(o, protocol=p)))) for p in range(6)] + [("deepcopy", copy.deepcopy)]


def bounds(tier):
    return {"copiers": [c[0] for c in COPIERS], "section_state_depth": 2 if tier == "quick" else 3,
            "read_cases": ["upper", "preserve"]}


_IN = {}


def _inputs(tier):
    if tier not in _IN:
        _IN[tier] = inputs.all_inputs(tier)
    return _IN[tier]


def points(tier):
    pts = []
    for i, (name, text) in enumerate(_inputs(tier)):
        if text.count("\n") > 3000:
            continue
        for case in ("upper", "preserve"):
            pts.append(["file", tier, i, case])
        # the same object after an in-memory edit of the index (first sample dropped from every curve)
        pts.append(["file", tier, i, "upper", "crop-top"])
        # the curves re-ordered in memory with the same item objects (last curve moved to position 1)
        pts.append(["file", tier, i, "upper", "reorder"])
        # every column kept as text (dtypes=False): numeric-looking strings must stay strings in a copy
        if name.startswith("gen:") or name.startswith("textcurve") or i % 7 == 0:
            pts.append(["file", tier, i, "upper", "dtypes-text"])
    for name in SCRATCH:
        pts.append(["scratch", name])
    depth = 2 if tier == "quick" else 3
    for root in c13.ROOTS:
        pts.append(["state", root, [], depth])
    return pts


def _scratch(name):
    las = lasio.LASFile()
    if name == "default":
        return las
    las.append_curve("DEPT", np.array([1.0, 2.0, 3.0]), unit="m")
    las.append_curve("GR", np.array([np.nan, 5.5, 6.5]), unit="gapi")
    if name == "nan-header":
        # values that are the float NaN object (what LASFile() itself uses for STRT/STOP/STEP), None and ''
        las.params.append(lasio.HeaderItem("BHT", "degC", np.nan, "not measured"))
        las.params.append(lasio.HeaderItem("MUD", "kg/m3", None, "none"))
        las.params.append(lasio.HeaderItem("RUN", "", float("nan"), "another NaN object"))
        las.well["WELL"].value = np.nan
        las.well["FLD"].unit = "x"
        las.well["FLD"].value = np.nan
    if name == "zero-rows-typed":
        las = lasio.LASFile()
        las.append_curve("DEPT", np.array([], dtype=float), unit="m")
        las.append_curve("LITH", np.array([], dtype="<U8"))
        las.append_curve("CODE", np.array([], dtype=np.int64))
        las.append_curve("FLAG", np.array([], dtype=bool))
        return las
    if name == "custom-sections":
        las.sections["Tops"] = lasio.SectionItems([lasio.HeaderItem("TOPA", "m", 100.5, "top a"), lasio.HeaderItem("TOPB", "m", 200.5, "top b")])
        las.sections["Notes"] = "free text section"
        return las
    if name.startswith("dup-"):
        # n items sharing one mnemonic (session names AMP:1 .. AMP:n, suffixes of one, two and three digits)
        for k in range(int(name[4:])):
            las.params.append(lasio.HeaderItem("AMP", "mV", k, "amplitude %d" % k))
    return las


SCRATCH = ["default", "curves", "nan-header", "dup-9", "dup-10", "dup-11", "dup-99", "dup-100", "dup-101", "dup-130", "zero-rows-typed", "custom-sections"]


def full_tag(las):
    t = canon.las_tag(las, "strict", session=True)
    t["index_unit"] = las.index_unit
    t["transforms"] = tuple((n, bool(s.mnemonic_transforms)) for n, s in las.sections.items() if not isinstance(s, str))
    t["types"] = tuple((n, type(s).__name__, tuple(type(i).__name__ for i in s) if not isinstance(s, str) else ()) for n, s in las.sections.items())
    return t


def sec_tag(sec):
    if isinstance(sec, str):
        return ("text", sec)
    return (type(sec).__name__, bool(sec.mnemonic_transforms), tuple(item_full(i) for i in sec))


def item_full(it):
    d = getattr(it, "data", None)
    return (type(it).__name__, it.mnemonic, it.original_mnemonic, it.unit, canon.value_tag(it.value, "strict"), it.descr,
            None if d is None else canon.array_tag(np.asarray(d), "strict"))


def written(las):
    try:
        s = io.StringIO()
        las.write(s)
        return s.getvalue()
    except Exception as e:
        return None


def interesting(las):
    for n, s in las.sections.items():
        if isinstance(s, str):
            continue
        names = [i.original_mnemonic.upper() for i in s]
        if len(set(names)) < len(names) or any(not x.strip() for x in names):
            return True
    return any(np.asarray(c.data).dtype.kind in "USO" for c in las.curves)


MUTATIONS = ["header-value", "rename-curve", "data-inplace", "append-curve", "custom-section"]


def mutate(las, m):
    if m == "header-value":
        if len(las.well):
            list.__getitem__(las.well, 0).value = "MUTATED"
        else:
            return False
    elif m == "rename-curve":
        if not len(las.curves):
            return False
        list.__getitem__(las.curves, len(las.curves) - 1).mnemonic = "RENAMED"
    elif m == "data-inplace":
        if not len(las.curves) or not len(las.curves[0].data) or np.asarray(las.curves[0].data).dtype.kind != "f":
            return False
        list.__getitem__(las.curves, 0).data[0] = 12345.678
    elif m == "custom-section":
        # a section other than the four standard ones that holds items (e.g. ~Tops, LAS 3.0 definition sections)
        extra = [sec for name, sec in las.sections.items()
                 if name not in ("Version", "Well", "Curves", "Parameter") and not isinstance(sec, str) and len(sec)]
        if not extra:
            return False
        list.__getitem__(extra[0], 0).value = "MUTATED"
        list.__getitem__(extra[0], 0).descr = "mutated"
        extra[0].append(lasio.HeaderItem("ADDED", "", 1, "added"))
    elif m == "append-curve":
        n = len(las.curves[0].data) if len(las.curves) else 2
        las.append_curve("APPENDED", np.arange(n, dtype=float))
    return True


def check_las(make, label, pt):
    """make() -> fresh equal LASFile each call."""
    vio = []
    evals = 0
    try:
        orig = make()
    except Exception:
        return [], None, "skipped:read-raises", {"skipped": 1}, 1
    ref = full_tag(orig)
    nontriv = interesting(orig)
    ref_text = written(make())

    def V(clause, copier, expected, observed, what="LASFile"):
        return {"clause": clause, "sig": "%s:%s" % (what, "pickle" if copier.startswith("pickle") else copier),
                "witness": {"point": pt, "copier": copier, "object": label}, "expected": expected, "observed": observed,
                "size": len(repr(ref)), "repro": "object %s, copier %s" % (label, copier)}

    for cname, cp in COPIERS:
        # whole LASFile
        evals += 1
        orig = make()
        try:
            dup = cp(orig)
        except Exception as e:
            vio.append(V("copy-raises", cname, "copy succeeds", "%s: %s" % (type(e).__name__, str(e)[:150])))
            continue
        got = full_tag(dup)
        if got != ref:
            vio.append(V("not-equal", cname, "observably equal copy", canon.diff_tags(ref, got)))
            continue
        # every item of the copy is found under its own session name (item access, membership)
        for sname, sec in dup.sections.items():
            if isinstance(sec, str):
                continue
            names = [i.mnemonic for i in sec]
            if len({n.upper() for n in names}) != len(names):
                continue   # stale duplicates (C13's subject) make the lookup ambiguous
            for it in list(sec):
                try:
                    if sec[it.mnemonic] is not it or it.mnemonic not in sec:
                        vio.append(V("copy-lookup", cname, "%s[%r] is the item" % (sname, it.mnemonic), "another item / not found"))
                        break
                except Exception as e:
                    vio.append(V("copy-lookup", cname, "%s[%r] is the item" % (sname, it.mnemonic), "%s: %s" % (type(e).__name__, str(e)[:100])))
                    break
        if full_tag(orig) != ref:
            vio.append(V("copying-changed-original", cname, "original untouched", canon.diff_tags(ref, full_tag(orig))))
        if ref_text is not None:
            t = written(dup)
            if t != ref_text:
                vio.append(V("write-differs", cname, "byte-identical write() output", _textdiff(ref_text, t)))
                continue
        # independence (one mutation per fresh pair; both directions)
        if cname in ("pickle2", "pickle5", "deepcopy"):
            for m in MUTATIONS:
                for direction in ("copy", "orig"):
                    evals += 1
                    a = make()
                    b = cp(a)
                    target, other = (b, a) if direction == "copy" else (a, b)
                    try:
                        if not mutate(target, m):
                            continue
                    except Exception as e:
                        continue
                    if full_tag(other) != ref:
                        vio.append(V("not-independent", cname, "mutating the %s (%s) leaves the other object unchanged" % (direction, m),
                                     canon.diff_tags(ref, full_tag(other))))
            # both objects used (written with the same explicit options) after the copy was taken, then every header
            # field of one of them edited in place: the other must not notice
            for wrapopt in (True, False):
                for direction in ("copy", "orig"):
                    evals += 1
                    try:
                        a = make()
                        a.write(io.StringIO(), wrap=wrapopt)
                        b = cp(a)
                        b.write(io.StringIO(), wrap=wrapopt)
                    except Exception:
                        continue
                    target, other = (b, a) if direction == "copy" else (a, b)
                    before = full_tag(other)
                    for secname in ("Version", "Well", "Parameter", "Curves"):
                        for it in list(target.sections[secname]):
                            it.unit, it.value, it.descr = "MU", "MUTATED", "MD"
                    if full_tag(other) != before:
                        vio.append(V("not-independent-after-writes", cname, "editing every header field of the %s (both written with wrap=%r) "
                                     "leaves the other object unchanged" % (direction, wrapopt), canon.diff_tags(before, full_tag(other))))
        # sections and items
        orig = make()
        for name, sec in orig.sections.items():
            evals += 1
            try:
                d2 = cp(sec)
            except Exception as e:
                vio.append(V("copy-raises", cname, "copy of section %s succeeds" % name, "%s: %s" % (type(e).__name__, str(e)[:150]), "section"))
                continue
            if sec_tag(d2) != sec_tag(sec):
                vio.append(V("not-equal", cname, "section %s equal" % name, canon.diff_tags(sec_tag(sec), sec_tag(d2)), "section"))
            if not isinstance(sec, str) and len(sec):
                for pos in sorted({0, len(sec) - 1}):
                    it = list.__getitem__(sec, pos)
                    evals += 1
                    try:
                        i2 = cp(it)
                    except Exception as e:
                        vio.append(V("copy-raises", cname, "copy of item succeeds", "%s: %s" % (type(e).__name__, str(e)[:150]), "item"))
                        continue
                    if item_full(i2) != item_full(it):
                        vio.append(V("not-equal", cname, list(map(str, item_full(it)[:4])), list(map(str, item_full(i2)[:4])), "item"))
                    elif getattr(it, "data", None) is not None and isinstance(it.data, np.ndarray) and it.data.size and np.shares_memory(i2.data, it.data):
                        vio.append(V("not-independent", cname, "item copy owns its array", "shares memory", "item"))
    return e1.compress(vio), nontriv, "ok", {}, evals


def _textdiff(a, b):
    if b is None:
        return "write() of the copy raises"
    la, lb = a.splitlines(), b.splitlines()
    for i, (x, y) in enumerate(zip(la, lb)):
        if x != y:
            return {"line": i + 1, "original": x, "copy": y}
    return {"lines": [len(la), len(lb)]}


def state_histories(root, depth):
    """Every history of length <= depth reaching a new canonical state (C13's builder and alphabet)."""
    seen = set()
    out = []
    frontier = [[]]
    for d in range(depth + 1):
        nxt = []
        for hist in frontier:
            try:
                section, las, factory, originals, ci = c13.build(root, hist)
            except Exception:
                continue
            key = c13.canon_state(section, ci)
            if key in seen or len(section) > 4:
                continue
            seen.add(key)
            out.append(hist)
            if d < depth:
                for op in c13.alphabet(len(section), [i.mnemonic for i in section]):
                    nxt.append(hist + [op])
        frontier = nxt
    return out


def check_state_family(root, depth, pt, only=None):
    vio = []
    evals = 0
    nontriv = set()
    hists = state_histories(root, depth)
    for hi, hist in enumerate(hists):
        if only is not None and hist != only:
            continue

        def make(hist=hist):
            section, las, factory, originals, ci = c13.build(root, hist)
            if las is None:
                las = lasio.LASFile()
                las.append_curve("DEPT", np.array([1.0, 2.0]))
                las.sections["Parameter"] = section
            return las

        v, nt, oc, counters, n = check_las(make, "c13 state %s %r" % (root, hist), pt)
        for x in v:
            x["witness"]["history"] = hist
            x["size"] = len(hist)
        vio.extend(v)
        evals += n
        if nt:
            nontriv.add(repr(hist))
    return e1.compress(vio), (repr(pt), len(nontriv)), "states", {"states": len(hists)}, evals


def check_point(pt, only=None):
    if pt[0] == "scratch":
        v, nt, oc, counters, evals = check_las(lambda: _scratch(pt[1]), "scratch:" + pt[1], pt)
        return v, (repr(pt), 1), oc, counters, evals
    if pt[0] == "file":
        name, text = _inputs(pt[1])[pt[2]]
        case = pt[3]
        edit = pt[4] if len(pt) > 4 else None

        def make():
            las = lasio.read(text, mnemonic_case=case, **({"dtypes": False} if edit == "dtypes-text" else {}))
            if edit == "crop-top":
                if not len(las.curves) or len(las.curves[0].data) < 3:
                    raise ValueError("nothing to crop")
                for c in las.curves:
                    c.data = c.data[1:]
            if edit == "reorder":
                if len(las.curves) < 3:
                    raise ValueError("nothing to re-order")
                item = list(las.curves)[-1]
                las.delete_curve(ix=len(las.curves) - 1)
                las.insert_curve_item(1, item)
            return las

        v, nt, oc, counters, evals = check_las(make, name + "|" + case + ("|" + edit if edit else ""), pt)
        return v, ((repr(pt), 1) if nt else None), oc, counters, evals
    return check_state_family(pt[1], pt[3], pt, only)


def replay(witness):
    return [v for v in check_point(witness["point"], only=witness.get("history"))[0]
            if v["witness"]["copier"] == witness["copier"]]


def units(tier, seed):
    _P[tier] = points(tier)
    return [{"tier": tier, "i": i} for i in range(len(_P[tier]))]


_P = {}


def run_unit(unit):
    tier = unit["tier"]
    if tier not in _P:
        _P[tier] = points(tier)
    pt = _P[tier][unit["i"]]
    vio, nt, oc, counters, evals = check_point(pt)
    return {"evals": evals, "nontrivial": nt[1] if nt else 0, "outcomes": {oc: 1}, "violations": vio,
            "samples": [{"point": pt if pt[0] in ("state", "scratch") else [pt[0], _inputs(pt[1])[pt[2]][0], pt[3]]}], "extra": counters}
