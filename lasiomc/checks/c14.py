"""C14 - the curve collection behaves like an ordered list model under every
edit history.  Explicit-state exploration (E2): a state is the operation
history reaching it; every transition is executed on a freshly rebuilt real
LASFile and on a plain-list reference model in lock-step."""
import hashlib
import io
import itertools

import numpy as np

import lasio
from lasio import CurveItem

from ..core import canon

PROPERTY = "C14"
LEVEL = "model_checking"
RULE = (
    "(round 8: las[name] for every case variant of a held name that keys() does not hold and for a name never used must raise KeyError in every reached state) (as built, rounds 4-5: insert positions incl. -len-1, -len-2, len+2; the same CurveItem moved to another position; item assignment under a case variant of an existing name; keys after set_data / insertion) "
    "BFS over operation histories (append_curve, insert_curve, delete_curve by ix/mnemonic, "
    "update_curve, replace_curve_item, las[k]=array, las[k]=CurveItem, set_data (+names, "
    "+truncate), las.data=) from three kinds of root (fresh LASFile, LASFile read from a "
    "3-curve file, pair of LASFiles edited alternately); each history is replayed on a fresh "
    "real object and on a list model; states are deduplicated by canonical form (session+"
    "original mnemonic, unit, value, descr, array identity relabelled by first appearance); "
    "a state is non-trivial when it holds >= 1 curve"
)
ASSUMPTIONS = [
    "every array handed to lasio is a fresh ndarray (aliasing chosen by the caller is numpy's semantics, not lasio's)",
    "by-mnemonic operations are generated only for keys taken from las.keys() (resolution: first exact match), plus one absent key",
    "set_data(names=shorter) pads the names with '' as the code comment documents",
    "canonical-state merging is sound because no edit method branches on array contents or on unit/descr/value",
]

ROOT_TEXT = (
    "~V\nVERS. 2.0 :\nWRAP. NO :\n~W\nNULL. -999.25 :\n~C\nD.M : depth\nA.U : a\nB.V : b\n"
    "~A\n1 11 21\n2 12 22\n3 13 23\n"
)
NAMES = ["D", "A", "B", ""]
NROWS = 3


def bounds(tier):
    return {"max_depth": DEPTH[tier], "names": NAMES + ["a (read root)"], "rows": NROWS,
            "roots": ["fresh", "read(upper)", "read(preserve)", "pair(fresh,read)"]}


DEPTH = {"quick": 3, "thorough": 4}


# ----------------------------------------------------------------- roots
_PROTO = {}


def _read_root(case):
    """lasio.read costs ~1 ms, a history replay ~50 us: the read roots are read
    once per process and then cloned through the public constructors only.  The
    clone is asserted equal (full snapshot and canonical state) to a genuinely
    re-read object before it is used."""
    if case not in _PROTO:
        proto = lasio.read(ROOT_TEXT, mnemonic_case=case)
        again = lasio.read(ROOT_TEXT, mnemonic_case=case)
        c = _clone(proto)
        assert snapshot(c) == snapshot(again) and state_key([c]) == state_key([again]), "clone differs from read"
        assert c.curves.mnemonic_transforms == again.curves.mnemonic_transforms
        _PROTO[case] = proto
    return _clone(_PROTO[case])


def _clone(las):
    new = lasio.LASFile()
    for name, sec in las.sections.items():
        if isinstance(sec, str):
            new.sections[name] = sec
            continue
        s = lasio.SectionItems()
        s.mnemonic_transforms = sec.mnemonic_transforms
        for it in sec:
            if isinstance(it, CurveItem):
                s.append(CurveItem(it.original_mnemonic, it.unit, it.value, it.descr, np.array(it.data)))
            else:
                s.append(lasio.HeaderItem(it.original_mnemonic, it.unit, it.value, it.descr))
        new.sections[name] = s
    new.index_unit = las.index_unit
    new.index_initial = None if las.index_initial is None else np.array(las.index_initial)
    return new


def make_root(root):
    if root == "fresh":
        return [lasio.LASFile()]
    if root == "read":
        return [_read_root("upper")]
    if root == "readp":
        return [_read_root("preserve")]
    if root == "pair":
        return [lasio.LASFile(), _read_root("upper")]
    raise ValueError(root)


def model_of(las):
    return [
        {"name": c.original_mnemonic, "unit": c.unit, "value": c.value, "descr": c.descr,
         "arr": tuple(np.asarray(c.data).tolist())}
        for c in las.curves
    ]


def arr_for(step, col=0):
    base = 1000.0 * (step + 1) + 100.0 * col
    return np.array([base + 1, base + 2, base + 3])


def mat_for(step, width):
    return np.column_stack([arr_for(step, c) for c in range(width)]) if width else np.zeros((NROWS, 0))


# ----------------------------------------------------------------- alphabet
def alphabet(n, names):
    """Operations enabled in a state with n curves (symbolic positions)."""
    ops = []
    for nm in names:
        ops.append(("append", nm))
    for ix in (0, 1, "len", -1, "-len-1", "-len-2", "len+2"):
        for nm in ("A", ""):
            ops.append(("insert", ix, nm))
    for ix in (0, -1, "last"):
        ops.append(("del_ix", ix))
    if n >= 2:
        # the same CurveItem object taken out and put back at another position
        ops.append(("move", "last", 0))
        ops.append(("move", 0, "last"))
        ops.append(("move", "last", 1))
    for p in range(n):
        ops.append(("del_mn", p))
    ops.append(("del_mn", "absent"))
    for p in range(n):
        ops.append(("upd_mn", p, "data"))
    ops.append(("upd_mn", "absent", "data"))
    for ix, field in ((0, "unit"), (-1, "unit"), ("last", "descr"), ("last", "value"), (0, "data"), ("len", "unit"),
                      (0, "unit_empty"), ("last", "value_zero"), ("last", "descr_empty"), (-1, "value_none")):
        ops.append(("upd_ix", ix, field))
    for ix in (0, -1, "last", "len"):
        for nm in ("Z", "A"):
            ops.append(("replace", ix, nm))
    for p in range(n):
        ops.append(("set_arr", p))
    ops.append(("set_arr", "new"))
    for p in range(n):
        ops.append(("set_item", p))
    ops.append(("set_item", "new"))
    ops.append(("set_item", "mismatch"))
    # item assignment under a key that differs from an existing session name only by letter case: keys() holds no
    # such key, so it is a new curve (appended), whatever comparison mode the section was read with
    for p in range(n):
        ops.append(("set_item_case", p))
    for extra in (0, 1, 2):
        ops.append(("set_data", extra, None, False))
        ops.append(("data_eq", extra))
    ops.append(("set_data", 3, "equal", False))
    ops.append(("append_shared2",))
    ops.append(("set_data", 0, "short", False))
    ops.append(("set_data", 0, "equal", False))
    ops.append(("set_data", 0, "dups", False))
    ops.append(("set_data", 1, "equal", False))
    ops.append(("set_data", 1, None, True))
    ops.append(("set_data", 2, None, True))
    ops.append(("set_data", 0, None, True))
    return ops


def res_ix(ix, n):
    if ix == "len":
        return n
    if ix == "last":
        return n - 1
    if ix == "-len-1":
        return -n - 1
    if ix == "-len-2":
        return -n - 2
    if ix == "len+2":
        return n + 2
    return ix


# metadata updates, including falsy new values (clearing a field is an update too)
FIELD_UPDATES = {"unit": ("unit", "U9"), "descr": ("descr", "new descr"), "value": ("value", "V9"),
                 "unit_empty": ("unit", ""), "value_zero": ("value", 0), "descr_empty": ("descr", ""), "value_none": ("value", None)}


class Undefined(Exception):
    """The list model does not define this operation: the implementation must
    raise and leave the object unchanged."""


def apply_model(model, op, step, keys):
    """Return the new model list (a copy).  `keys` = las.keys() before the op."""
    m = [dict(r) for r in model]
    n = len(m)
    kind = op[0]

    def rec(name, step, col=0, unit="", value="", descr=""):
        return {"name": name, "unit": unit, "value": value, "descr": descr,
                "arr": tuple(arr_for(step, col).tolist())}

    def first(key):
        for i, k in enumerate(keys):
            if k == key:
                return i
        raise Undefined()

    if kind == "append":
        m.append(rec(op[1], step))
    elif kind == "insert":
        m.insert(res_ix(op[1], n), rec(op[2], step))
    elif kind == "move":
        r = m.pop(res_ix(op[1], n))
        m.insert(res_ix(op[2], n - 1) if op[2] != "last" else n - 1, r)
    elif kind == "del_ix":
        ix = res_ix(op[1], n)
        if not (-n <= ix < n):
            raise Undefined()
        m.pop(ix)
    elif kind == "del_mn":
        if op[1] == "absent":
            raise Undefined()
        m.pop(first(keys[op[1]]))
    elif kind == "upd_mn":
        if op[1] == "absent":
            raise Undefined()
        m[first(keys[op[1]])]["arr"] = tuple(arr_for(step).tolist())
    elif kind == "upd_ix":
        ix = res_ix(op[1], n)
        if not (-n <= ix < n):
            raise Undefined()
        if op[2] == "data":
            m[ix]["arr"] = tuple(arr_for(step).tolist())
        else:
            f, val = FIELD_UPDATES[op[2]]
            m[ix][f] = val
    elif kind == "replace":
        ix = res_ix(op[1], n)
        if not (-n <= ix < n):
            raise Undefined()
        m[ix] = rec(op[2], step, unit="RU", value="RV", descr="replaced")
    elif kind == "append_shared2":
        # the caller hands the SAME array to two curves: later edits through lasio must rebind, never write through
        m.append(rec("S1", step))
        m.append(rec("S2", step))
    elif kind == "set_arr":
        if op[1] == "new" and "N" in keys:
            m[first("N")]["arr"] = tuple(arr_for(step).tolist())
        elif op[1] == "new":
            m.append(rec("N", step))
        else:
            m[first(keys[op[1]])]["arr"] = tuple(arr_for(step).tolist())
    elif kind == "set_item":
        if op[1] == "mismatch":
            raise Undefined()
        if op[1] == "new" and "Q" in keys:
            m[first("Q")] = rec("Q", step, unit="IU", value="IV", descr="item")
        elif op[1] == "new":
            m.append(rec("Q", step, unit="IU", value="IV", descr="item"))
        else:
            key = keys[op[1]]
            # a fresh CurveItem(name) has session mnemonic == useful name; the
            # assignment is only well-formed when that equals the key
            m[first(key)] = rec(_item_name_for_key(key), step, unit="IU", value="IV", descr="item")
    elif kind == "set_item_case":
        key = keys[op[1]].swapcase()
        if key == keys[op[1]]:
            raise Undefined()
        if key in keys:
            m[first(key)] = rec(key, step, unit="IU", value="IV", descr="item")
        else:
            m.append(rec(key, step, unit="IU", value="IV", descr="item"))
    elif kind in ("set_data", "data_eq"):
        extra = op[1]
        names_variant = op[2] if kind == "set_data" else None
        truncate = op[3] if kind == "set_data" else False
        width = n + extra
        if truncate:
            width_used = n
        else:
            width_used = width
        if width_used == 0 or width == 0:
            return m  # empty array: nothing to set
        while len(m) < width_used:
            m.append({"name": "", "unit": "", "value": "", "descr": "", "arr": ()})
        names = _names_for(names_variant, len(m), [r["name"] for r in m])
        for i, r in enumerate(m):
            r["name"] = names[i]
            if i < width_used:
                r["arr"] = tuple(arr_for(step, i).tolist())
        # columns beyond width_used do not exist (width_used == len(m) here)
    else:
        raise ValueError(op)
    return m


def _item_name_for_key(key):
    return key


def _names_for(variant, ncurves, originals):
    if variant is None:
        return list(originals)
    if variant == "short":
        names = ["X%d" % i for i in range(max(ncurves - 1, 0))]
    elif variant == "equal":
        names = ["X%d" % i for i in range(ncurves)]
    elif variant == "dups":
        names = ["X"] * ncurves
    else:
        raise ValueError(variant)
    if not names:  # an empty list counts as "no names given"
        return list(originals)
    while len(names) < ncurves:
        names.append("")
    return names


def apply_impl(las, op, step):
    n = len(las.curves)
    keys = las.keys()
    kind = op[0]
    if kind == "append":
        las.append_curve(op[1], arr_for(step))
    elif kind == "insert":
        las.insert_curve(res_ix(op[1], n), op[2], arr_for(step))
    elif kind == "move":
        src = res_ix(op[1], n)
        item = list(las.curves)[src]
        las.delete_curve(ix=src)
        las.insert_curve_item(res_ix(op[2], n - 1) if op[2] != "last" else n - 1, item)
    elif kind == "del_ix":
        las.delete_curve(ix=res_ix(op[1], n))
    elif kind == "del_mn":
        las.delete_curve(mnemonic="ZZ_absent" if op[1] == "absent" else keys[op[1]])
    elif kind == "upd_mn":
        las.update_curve(mnemonic="ZZ_absent" if op[1] == "absent" else keys[op[1]], data=arr_for(step))
    elif kind == "upd_ix":
        ix = res_ix(op[1], n)
        if op[2] == "data":
            las.update_curve(ix=ix, data=arr_for(step))
        else:
            f, val = FIELD_UPDATES[op[2]]
            las.update_curve(ix=ix, **{f: val})
    elif kind == "replace":
        las.replace_curve_item(res_ix(op[1], n), CurveItem(op[2], "RU", "RV", "replaced", arr_for(step)))
    elif kind == "append_shared2":
        shared = arr_for(step)
        las.append_curve("S1", shared)
        las.append_curve("S2", shared)
    elif kind == "set_arr":
        las["N" if op[1] == "new" else keys[op[1]]] = arr_for(step)
    elif kind == "set_item":
        if op[1] == "mismatch":
            las["ZZ_other"] = CurveItem("Q", "IU", "IV", "item", arr_for(step))
        elif op[1] == "new":
            las["Q"] = CurveItem("Q", "IU", "IV", "item", arr_for(step))
        else:
            key = keys[op[1]]
            las[key] = CurveItem(_item_name_for_key(key), "IU", "IV", "item", arr_for(step))
    elif kind == "set_item_case":
        key = keys[op[1]].swapcase()
        if key == keys[op[1]]:
            raise Undefined()
        las[key] = CurveItem(key, "IU", "IV", "item", arr_for(step))
    elif kind == "set_data":
        extra, variant, truncate = op[1], op[2], op[3]
        width = n + extra
        ncur_after = n if truncate else max(n, width)
        names = None
        if variant is not None:
            names = _names_for_call(variant, ncur_after)
        las.set_data(mat_for(step, width), names=names, truncate=truncate)
    elif kind == "data_eq":
        las.data = mat_for(step, n + op[1])
    else:
        raise ValueError(op)


def _names_for_call(variant, ncurves):
    if variant == "short":
        return ["X%d" % i for i in range(max(ncurves - 1, 0))]
    if variant == "equal":
        return ["X%d" % i for i in range(ncurves)]
    if variant == "dups":
        return ["X"] * ncurves
    raise ValueError(variant)


def set_item_defined(keys, op):
    """las[key] = CurveItem is well-formed only if item.mnemonic == key; a fresh
    CurveItem named `key` has mnemonic == key unless key is blank."""
    if op[0] != "set_item" or op[1] in ("new", "mismatch"):
        return True
    key = keys[op[1]]
    return CurveItem(key).mnemonic == key


# ----------------------------------------------------------------- comparison
def compare(las, model, ci=None):
    """All views against the model; returns a list of (what, expected, observed)."""
    bad = []
    cur = list(las.curves)
    exp_names = [r["name"] for r in model]
    got_names = [c.original_mnemonic for c in cur]
    if got_names != exp_names:
        bad.append(("original mnemonics", exp_names, got_names))
        return bad
    for i, (c, r) in enumerate(zip(cur, model)):
        if (c.unit, c.value, c.descr) != (r["unit"], r["value"], r["descr"]):
            bad.append(("metadata of curve %d" % i, (r["unit"], r["value"], r["descr"]), (c.unit, c.value, c.descr)))
        d = np.asarray(c.data)
        if d.ndim != 1 or tuple(d.tolist()) != r["arr"]:
            bad.append(("array of curve %d" % i, r["arr"], d.tolist()))
    if bad:
        return bad
    n = len(model)
    keys = las.keys()
    if len(keys) != n or keys != [c.mnemonic for c in cur] or keys != las.curves.keys():
        bad.append(("keys()", [c.mnemonic for c in cur], keys))
    vals = las.values()
    if len(vals) != n or any(tuple(np.asarray(v).tolist()) != r["arr"] for v, r in zip(vals, model)):
        bad.append(("values()", [r["arr"] for r in model], [np.asarray(v).tolist() for v in vals]))
    its = las.items()
    if [k for k, _ in its] != keys or any(tuple(np.asarray(v).tolist()) != r["arr"] for (_, v), r in zip(its, model)):
        bad.append(("items()", None, [(k, np.asarray(v).tolist()) for k, v in its]))
    if n:
        try:
            ix = las.index
            if tuple(np.asarray(ix).tolist()) != model[0]["arr"]:
                bad.append(("index", model[0]["arr"], np.asarray(ix).tolist()))
        except Exception as e:
            bad.append(("index", model[0]["arr"], repr(e)))
        lens = {len(r["arr"]) for r in model}
        if len(lens) == 1:
            try:
                data = las.data
                if data.shape != (lens.pop(), n):
                    bad.append(("data.shape", (len(model[0]["arr"]), n), data.shape))
                else:
                    for i, r in enumerate(model):
                        if tuple(data[:, i].tolist()) != r["arr"]:
                            bad.append(("data[:, %d]" % i, r["arr"], data[:, i].tolist()))
            except Exception as e:
                bad.append(("data", "2-D array", repr(e)))
        for i in list(range(n)) + [-1, -n]:
            try:
                got = tuple(np.asarray(las[i]).tolist())
            except Exception as e:
                got = repr(e)
            if got != model[i]["arr"]:
                bad.append(("las[%d]" % i, model[i]["arr"], got))
        if ci is None:
            ci = bool(las.curves.mnemonic_transforms)
        for k in keys:
            # first item whose session mnemonic equals k under the section's comparison
            pos = None
            for i, kk in enumerate(keys):
                if (kk.upper() == k.upper()) if ci else (kk == k):
                    pos = i
                    break
            try:
                got = tuple(np.asarray(las[k]).tolist())
            except Exception as e:
                got = repr(e)
            if got != model[pos]["arr"]:
                bad.append(("las[%r]" % k, model[pos]["arr"], got))
        # names the list model does not hold (round 8: a case variant of a held name on a read object, a name never
        # used): mnemonic indexing has nothing to return, exactly as keys() / `in keys()` say
        for k in sorted(set(kk.swapcase() for kk in keys) | {"ZZ_ABSENT"}):
            if k in keys:
                continue
            try:
                got = "returned " + repr(tuple(np.asarray(las[k]).tolist()))
            except KeyError:
                got = "KeyError"
            except Exception as e:
                got = repr(e)
            if got != "KeyError":
                bad.append(("las[%r] (absent name)" % k, "KeyError", got))
    else:
        try:
            las.index
            bad.append(("index on empty", "IndexError", "returned"))
        except IndexError:
            pass
        except Exception as e:
            bad.append(("index on empty", "IndexError", repr(e)))
    return bad


def state_key(objs):
    """Canonical form of a (tuple of) LASFile(s): curves only (the edit methods
    touch nothing else), arrays relabelled by first appearance."""
    out = []
    for las in objs:
        relabel = {}
        cs = []
        for c in las.curves:
            a = tuple(np.asarray(c.data).ravel().tolist())
            relabel.setdefault(a, len(relabel))
            cs.append((type(c).__name__, c.mnemonic, c.original_mnemonic, c.unit, str(c.value), c.descr, relabel[a]))
        out.append((bool(las.curves.mnemonic_transforms), tuple(cs)))
    return tuple(out)


def snapshot(las):
    t = canon.las_tag(las, "strict")
    return (t, tuple(las.keys()), las.index_unit)


# ----------------------------------------------------------------- exploration
def build(root, history):
    objs = make_root(root)
    models = [model_of(o) for o in objs]
    for step, (target, op) in enumerate(history):
        las = objs[target]
        keys = las.keys()
        try:
            newm = apply_model(models[target], op, step, keys)
        except Undefined:
            newm = None
        if newm is None or not set_item_defined(keys, op):
            try:
                apply_impl(las, op, step)
            except Exception:
                pass
        else:
            apply_impl(las, op, step)
            models[target] = newm
    return objs, models


def expected_numbering(names, ci):
    """Session names lasio assigns when it numbers a whole section: unique names bare, duplicates :1..:n in order."""
    useful = ["UNKNOWN" if not n.strip() else n for n in names]
    out = []
    for p, u in enumerate(useful):
        grp = [q for q, v in enumerate(useful) if (v.upper() == u.upper() if ci else v == u)]
        out.append(u if len(grp) == 1 else "%s:%d" % (u, grp.index(p) + 1))
    return out


def step_check(root, history, target, op):
    """Execute history then (target, op); returns (violations, new_state_key or None)."""
    vio = []
    try:
        objs, models = build(root, history)
    except Exception as e:  # a previously validated history must replay
        return [viol("replay-diverged", "history", history, target, op, root, "replays", repr(e))], None
    las = objs[target]
    step = len(history)
    keys = las.keys()
    others = [(i, snapshot(o)) for i, o in enumerate(objs) if i != target]
    before = snapshot(las)
    defined = True
    try:
        newm = apply_model(models[target], op, step, keys)
    except Undefined:
        defined = False
        newm = None
    if defined and not set_item_defined(keys, op):
        # well-formedness of the call itself is not given: outcome unspecified
        return [], None
    model_before = models[target]
    exc = None
    try:
        apply_impl(las, op, step)
    except Exception as e:
        exc = e
    if not defined:
        if exc is None:
            vio.append(viol("undefined-op-does-not-raise", "op", history, target, op, root, "an exception", "returned normally"))
        elif snapshot(las) != before:
            vio.append(viol("failed-op-changed-object", "op", history, target, op, root, "unchanged object",
                            canon.diff_tags(before, snapshot(las))))
        return vio, None
    if exc is not None:
        vio.append(viol("defined-op-raises", "op", history, target, op, root, "model: %s" % [r["name"] for r in newm],
                        "%s: %s" % (type(exc).__name__, str(exc)[:200])))
        return vio, None
    models[target] = newm
    # whether names are compared case-insensitively follows from how the object was made (read with case normalisation
    # or not), never from the object's own flag
    ci_made = (root == "read") or (root == "pair" and target == 1)
    bad = compare(las, newm, ci_made)
    for what, exp, got in bad[:3]:
        vio.append(viol("model-mismatch", what, history, target, op, root, exp, got))
    if not bad and op[0] in ("append", "insert"):
        # after an insertion the items sharing the inserted name are numbered :1..:n in order (a single one keeps the bare name)
        ci = ci_made
        name = op[1] if op[0] == "append" else op[2]
        u = "UNKNOWN" if not name.strip() else name
        grp = [p for p, r in enumerate(newm) if ((("UNKNOWN" if not r["name"].strip() else r["name"]).upper() == u.upper()) if ci
                                                 else (("UNKNOWN" if not r["name"].strip() else r["name"]) == u))]
        keys_now = las.keys()
        want = [(("UNKNOWN" if not newm[p]["name"].strip() else newm[p]["name"]) + (":%d" % (k + 1) if len(grp) > 1 else "")) for k, p in enumerate(grp)]
        got = [keys_now[p] for p in grp]
        if got != want:
            vio.append(viol("keys-after-insertion", "keys() of the inserted name's group", history, target, op, root, want, got))
    if not bad and op[0] in ("set_data", "data_eq") and len(newm):
        # set_data re-assigns every name and re-numbers the whole section: keys() follow from the names alone
        # (an empty array is a no-op, but then the curve list is empty too)
        want = expected_numbering([r["name"] for r in newm], bool(las.curves.mnemonic_transforms))
        if las.keys() != want:
            vio.append(viol("keys-after-set_data", "keys()", history, target, op, root, want, las.keys()))
    for i, snap in others:
        now = snapshot(objs[i])
        if now != snap:
            vio.append(viol("other-object-changed", "object %d" % i, history, target, op, root, "unchanged",
                            canon.diff_tags(snap, now)))
    if vio:
        return vio, None
    return vio, state_key(objs)


def viol(clause, what, history, target, op, root, expected, observed):
    sig = classify(clause, op, what)
    w = {"root": root, "history": [list(map(_l, h)) for h in history], "target": target, "op": _l(op)}
    return {
        "clause": clause,
        "sig": sig,
        "witness": w,
        "expected": {"what": what, "value": expected},
        "observed": observed,
        "size": len(history),
        "repro": "see ./vcheck C14 --replay <this file>; history ops are (target object, operation)",
    }


def _l(x):
    return list(x) if isinstance(x, tuple) else x


def _t(x):
    return tuple(_t(i) for i in x) if isinstance(x, list) else x


def classify(clause, op, what):
    return "op=%s" % (":".join(str(x) for x in op[:2]))


def targets_for(root):
    return (0, 1) if root == "pair" else (0,)


def names_for(root):
    return NAMES + (["a"] if root in ("read", "pair") else [])


def units(tier, seed):
    depth = DEPTH[tier]
    us = []
    for root in ("fresh", "read", "readp", "pair"):
        d = depth if root != "pair" else max(2, depth - 1)
        objs = make_root(root)
        for target in targets_for(root):
            for op in alphabet(len(objs[target].curves), names_for(root)):
                us.append({"root": root, "first": [target, _l(op)], "depth": d})
    return us


def run_unit(unit):
    root = unit["root"]
    depth = unit["depth"]
    first = (unit["first"][0], _t(unit["first"][1]))
    res = {"evals": 0, "nontrivial": 0, "outcomes": {}, "violations": [], "samples": [],
           "states": set(), "transitions": 0, "traces": 0, "max_depth": 0}
    seen = set()
    nontriv = set()
    frontier = []

    def expand(history, target, op):
        vio, key = step_check(root, history, target, op)
        res["transitions"] += 1
        res["traces"] += 1
        res["evals"] += 1
        oc = "ok" if key is not None else ("violation" if vio else "rejected")
        res["outcomes"][op[0] + ":" + oc] = res["outcomes"].get(op[0] + ":" + oc, 0) + 1
        res["violations"].extend(vio)
        if key is not None and key not in seen:
            seen.add(key)
            if any(len(o[1]) for o in key):
                nontriv.add(key)
            return history + [(target, op)]
        return None

    h = expand([], first[0], first[1])
    if h:
        frontier.append(h)
        res["max_depth"] = 1
    for d in range(2, depth + 1):
        nxt = []
        for hist in frontier:
            try:
                objs, _ = build(root, hist)
            except Exception as e:
                # a history that was executed and validated a moment ago does not replay: something outside the objects
                # (module-level state) has changed the behaviour of the same calls
                res["violations"].append(viol("replay-diverged", "history", hist[:-1], hist[-1][0], hist[-1][1], root,
                                              "a validated history replays identically", repr(e)))
                continue
            for target in targets_for(root):
                for op in alphabet(len(objs[target].curves), names_for(root)):
                    h2 = expand(hist, target, op)
                    if h2:
                        nxt.append(h2)
        if frontier:
            res["max_depth"] = d
        frontier = nxt
    res["states"] = {hashlib.blake2b(repr(k).encode(), digest_size=8).hexdigest() for k in seen}
    res["nontrivial"] = {hashlib.blake2b(repr(k).encode(), digest_size=8).hexdigest() for k in nontriv}
    if frontier or seen:
        sample_hist = (frontier[0] if frontier else [first])
        res["samples"].append({"root": root, "history": [[t, _l(o)] for t, o in sample_hist]})
    # dedup violations inside the unit: keep the shortest per (clause, sig)
    best = {}
    for v in res["violations"]:
        k = (v["clause"], v["sig"])
        if k not in best:
            best[k] = dict(v, count=0)
        best[k]["count"] += 1
        if v["size"] < best[k]["size"]:
            c = best[k]["count"]
            best[k] = dict(v, count=c)
    res["violations"] = list(best.values())
    return res


def replay(witness):
    root = witness["root"]
    history = [(t, _t(o)) for t, o in witness["history"]]
    vio, _ = step_check(root, history, witness["target"], _t(witness["op"]))
    return vio
