"""C16 - write() is deterministic, leaves data alone and states STRT/STOP/STEP
truthfully.  E2: BFS over histories of edits and writes on real LASFile
objects; invariants evaluated on every write transition."""
import hashlib
import io

import numpy as np

import lasio

from ..core import canon, roundtrip, space

PROPERTY = "C16"
LEVEL = "model_checking"
RULE = (
    "states = histories over {write(cfg) for cfg in the writer alphabet} u {replace index, edit the last / the first index sample in place, shift the whole index by 0.01, insert "
    "a curve at position 0, edit another curve, edit a header value, edit WRAP} from 24 roots (scratch LASFiles with "
    "increasing / decreasing / irregular / single-sample / two-sample index, with and without units; files read with STOP agreeing "
    "or not, STRT disagreeing, 1.2, wrapped, empty-valued items, text curve, duplicate mnemonics, depths around 3000, STRT/STOP/STEP units disagreeing, read with mnemonic_case='lower', a declared STEP of 0 over a regular and an irregular index); on every write "
    "transition: (a) frame - full snapshot before/after differs only inside the statement's allow-list, VERS untouched; "
    "(b) repeat - a write following a write with the same options is byte-identical and changes nothing; (b'') round 8: after any earlier write, the text equals the text of a never-written object of the same root and edits brought to the very same in-memory state (the output is a function of state and options, not of the writes before); (c) truth - "
    "when the index is dirty, read(output) has STRT/STOP = first/last index, STEP = first increment, units = index "
    "unit; deduplication by (snapshot, index_initial, last write); non-trivial = state reached through >= 1 write"
)
ASSUMPTIONS = [
    "the private change-detection anchor index_initial is not part of the protected content (kept in the state key only)",
    "truthfulness is required only when the statement's trigger holds (index created/changed in memory, or file STOP != last index)",
    "tolerance for STRT/STOP/STEP: half a unit of %.5f plus half a unit of the data format",
]

DEPTH = {"quick": 3, "thorough": 4}

FILE = (
    "~Version\nVERS. {vers} : v\nWRAP. {wrap} : w\n~Well\nSTRT.M {strt} : start\nSTOP.M {stop} : stop\nSTEP.M {step} : step\n"
    "NULL. -999.25 : null\nWELL. {well}\nEMPTYU.KG : empty with unit\n~Curve\nDEPT.M : depth\nGR.GAPI : gamma\n{extra_curve}"
    "~Parameter\nP1.U 3.5 : a parameter\nPE.OHMM : empty param with unit\n~Other\nsome text\n~ASCII\n{data}"
)


def file_text(vers="2.0", wrap="NO", strt="1.0", stop="3.0", step="1.0", text_curve=False, dup=False, deep=False, mixed_units=False,
              irregular=False):
    well = "w1 : well name" if vers == "2.0" else "well name : w1"
    extra = ""
    rows = [["1.0", "10.5"], ["2.0", "-999.25"], ["3.0" if not irregular else "3.5", "30.5"]]
    if text_curve:
        extra = "TXT. : text curve\n"
        for i, r in enumerate(rows):
            r.append("abc%d" % i)
    if dup:
        extra = "GR.GAPI : gamma again\n"
        for i, r in enumerate(rows):
            r.append("%d.25" % (i + 40))
    if wrap == "YES":
        data = "".join("%s\n%s\n" % (r[0], " ".join(r[1:])) for r in rows)
    else:
        data = "".join(" ".join(r) + "\n" for r in rows)
    text = FILE.format(vers=vers, wrap=wrap, strt=strt, stop=stop, step=step, well=well, extra_curve=extra, data=data)
    if deep:
        # realistic depths: a tolerance that scales with the magnitude must not hide an index edit
        for a, b in (("1.0", "3000.0"), ("2.0", "3000.5"), ("3.0", "3001.0")):
            text = text.replace("\n%s " % a, "\n%s " % b)
        text = text.replace("STRT.M 1.0", "STRT.M 3000.0").replace("STOP.M 3.0", "STOP.M 3001.0").replace("STEP.M 1.0", "STEP.M 0.5")
    if mixed_units:
        text = text.replace("STOP.M", "STOP.F").replace("STEP.M", "STEP.F")
    return text


ROOTS = {
    "scratch-inc": None, "scratch-dec": None, "scratch-irr": None, "scratch-single": None, "scratch-big": None, "scratch-wide": None, "scratch-two": None, "scratch-two-dec": None,
    "read-agree": file_text(), "read-stop-wrong": file_text(stop="2.5"), "read-strt-wrong": file_text(strt="0.5"),
    "read-12": file_text(vers="1.2"), "read-wrapped": file_text(wrap="YES"), "read-text": file_text(text_curve=True),
    "read-dup": file_text(dup=True), "read-stop-wrong-12": file_text(vers="1.2", stop="9"),
    "read-deep": file_text(deep=True), "read-mixed-units": file_text(mixed_units=True),
    "readlower-12-stop-wrong": file_text(vers="1.2", stop="9"), "readlower-20": file_text(),
    # a declared STEP of 0 (the LAS 2.0 convention for "variable step"), with a regular and with an irregular index
    # three same-named curves of which the middle one is deleted after reading (session names GR:1, GR:3: a gap)
    "read-dup3-gap": file_text().replace("GR.GAPI : gamma\n", "GR.GAPI : gamma\nGR.GAPI : gamma two\nGR.GAPI : gamma three\n").replace(
        "1.0 10.5\n2.0 -999.25\n3.0 30.5\n", "1.0 10.5 11.5 12.5\n2.0 -999.25 21.5 22.5\n3.0 30.5 31.5 32.5\n"),
    # a file without a NULL item
    "read-no-null": file_text().replace("NULL. -999.25 : null\n", ""),
    "read-step0": file_text(step="0"), "read-step0-irr-stop-wrong": file_text(step="0.0", stop="9", irregular=True),
}


def make_root(name):
    if name == "scratch-inc":
        las = lasio.LASFile()
        las.append_curve("DEPT", np.array([1.0, 2.0, 3.0]), unit="m")
        las.append_curve("GR", np.array([10.5, np.nan, 30.5]), unit="gapi")
        return las, True
    if name == "scratch-dec":
        las = lasio.LASFile()
        las.append_curve("DEPT", np.array([3.0, 2.5, 2.0]))
        las.append_curve("GR", np.array([1.0, 2.0, 3.0]))
        return las, True
    if name == "scratch-irr":
        las = lasio.LASFile()
        las.append_curve("TIME", np.array([1.0, 2.5, 7.0]), unit="ft")
        return las, True
    if name == "scratch-big":
        # a round number of rows, wide enough to wrap into several physical lines per depth step
        las = lasio.LASFile()
        n = 1000
        las.append_curve("DEPT", np.arange(n) * 0.5 + 100.0, unit="m")
        for j in range(1, 16):
            las.append_curve("C%d" % j, np.arange(n) * 0.25 + j)
        return las, True
    if name == "scratch-wide":
        # twelve curves: a depth step is longer than one 79-character line, so the wrapped layout depends on data_width
        las = lasio.LASFile()
        las.append_curve("DEPT", np.array([100.0, 100.5, 101.0]), unit="m")
        for j in range(1, 12):
            las.append_curve("C%d" % j, np.array([1.25, 2.5, np.nan]) * j)
        return las, True
    if name in ("scratch-two", "scratch-two-dec"):
        las = lasio.LASFile()
        las.append_curve("DEPT", np.array([10.0, 10.5] if name == "scratch-two" else [10.5, 10.25]), unit="m")
        las.append_curve("GR", np.array([1.0, np.nan]))
        return las, True
    if name == "scratch-single":
        las = lasio.LASFile()
        las.append_curve("DEPT", np.array([5.0]), unit="m")
        las.append_curve("GR", np.array([1.0]))
        return las, True
    las = lasio.read(ROOTS[name], mnemonic_case="lower" if name.startswith("readlower") else "upper")
    if name == "read-dup3-gap":
        las.delete_curve(mnemonic="GR:2")
    dirty = "stop-wrong" in name
    return las, dirty


def write_cfgs(tier):
    base = [{}, {"version": 1.2}, {"version": 2.0}, {"wrap": True}, {"wrap": False}, {"fmt": "%.2f"}]
    if True:
        base += [{"len_numeric_field": -1, "spacer": "   "}, {"data_width": 20, "wrap": True}, {"mnemonics_header": True},
                 {"column_fmt": {0: "%.3f"}}, {"lhs_spacer": "", "data_section_header": "~A"}]
    return base


EDITS = ["replace-index", "inplace-index", "inplace-first", "nudge-index", "insert-curve0", "edit-other-curve", "nan-other-curve", "edit-header", "edit-wrap"]
INDEX_EDITS = ("replace-index", "inplace-index", "inplace-first", "nudge-index", "insert-curve0")


def alphabet(tier):
    return [["w", i] for i in range(len(write_cfgs(tier)))] + [["e", e] for e in EDITS]


def bounds(tier):
    return {"max_depth": DEPTH[tier], "roots": list(ROOTS), "writes": [repr(c) for c in write_cfgs(tier)], "edits": EDITS}


# ---------------------------------------------------------------- snapshots
def snapshot(las):
    secs = []
    for name, sec in las.sections.items():
        if isinstance(sec, str):
            secs.append((name, sec))
        else:
            secs.append((name, tuple((i.mnemonic, i.original_mnemonic, i.unit, _v(i.value), i.descr) for i in sec)))
    curves = tuple((c.data.dtype.str, c.data.shape, _bytes(c.data)) for c in las.curves)
    return {"sections": tuple(secs), "curves": curves, "index_unit": las.index_unit}


def _v(v):
    if isinstance(v, float) and v != v:
        return ("nan",)
    return (type(v).__name__, repr(v))


def _bytes(a):
    if a.dtype.kind in "OUS":
        return repr(a.tolist())
    return a.tobytes()


def frame_diff(before, after, wrap_given):
    """Differences outside the statement's allow-list."""
    bad = []
    if before["index_unit"] != after["index_unit"]:
        bad.append(("index_unit", before["index_unit"], after["index_unit"]))
    if before["curves"] != after["curves"]:
        bad.append(("curve data", "unchanged", "changed"))
    bs, as_ = dict(before["sections"]), dict(after["sections"])
    if list(bs) != list(as_):
        bad.append(("section keys", list(bs), list(as_)))
        return bad
    for name in bs:
        b, a = bs[name], as_[name]
        if isinstance(b, str) or isinstance(a, str):
            if a != b:
                bad.append((name, b, a))
            continue
        if len(a) != len(b):
            bad.append((name + " item count", len(b), len(a)))
            continue
        for pos, (ib, ia) in enumerate(zip(b, a)):
            if ib == ia:
                continue
            bm, bo, bu, bv, bd = ib
            am, ao, au, av, ad = ia
            if name == "Well" and bo.upper() in ("STRT", "STOP", "STEP") and (bm, bo, bd) == (am, ao, ad):
                continue  # value and unit may be refreshed
            if name == "Curves" and pos == 0 and (bm, bo, bv, bd) == (am, ao, av, ad):
                continue  # first curve's unit alignment
            if name == "Version" and bo.upper() == "WRAP" and ao.upper() == "WRAP" and wrap_given:
                continue
            if name in ("Well", "Parameter") and (bm, bo, bu, bd) == (am, ao, au, ad):
                # normalisation of empty values: '' / None -> 0 (with unit), None -> ''
                if bv in (("str", "''"), ("NoneType", "None")) and av in (("int", "0"), ("str", "''")):
                    continue
            bad.append(("%s item %d (%s)" % (name, pos, bo), ib, ia))
    return bad


# ---------------------------------------------------------------- transitions
def apply_edit(las, e, step):
    if e == "replace-index":
        las.curves[0].data = np.asarray(las.curves[0].data, dtype=float) + 1000.0 + step
    elif e == "inplace-index":
        las.index[-1] = las.index[-1] + 0.5
    elif e == "inplace-first":
        if len(las.index) < 2:
            return False
        las.index[0] = las.index[0] - 0.5     # in place, the last sample (what STOP is compared with) stays
    elif e == "nudge-index":
        las.index[...] = las.index + 0.01  # a small shift of the whole index, in place
    elif e == "insert-curve0":
        n = len(las.curves[0].data)
        las.insert_curve(0, "NEWIDX%d" % step, np.arange(n, dtype=float) * 2.0 + 50.0 + step, unit="ft")
    elif e == "edit-other-curve":
        if len(las.curves) < 2:
            return False
        c = las.curves[1]
        if c.data.dtype.kind != "f":
            return False
        c.data[0] = 77.0 + step
    elif e == "nan-other-curve":
        if len(las.curves) < 2:
            return False
        c = las.curves[1]
        if c.data.dtype.kind != "f":
            return False
        c.data[-1] = np.nan if not np.isnan(c.data[-1]) else 5.5   # in place: toggles a NaN
    elif e == "edit-header":
        las.well["WELL"].value = "changed %d" % step
    elif e == "edit-wrap":
        las.version["WRAP"].value = "YES" if las.version["WRAP"].value == "NO" else "NO"
    return True


def do_write(las, cfg):
    s = io.StringIO()
    las.write(s, **cfg)
    return s.getvalue()


class Ctx(object):
    def __init__(self, root):
        self.las, self.dirty = make_root(root)
        self.last_write = None  # (cfg_index, text)
        self.writes = {}        # cfg_index -> (text, snapshot after that write), since the last edit


def replay_history(root, tier, history):
    ctx = Ctx(root)
    cfgs = write_cfgs(tier)
    for step, op in enumerate(history):
        if op[0] == "w":
            ctx.last_write = (op[1], do_write(ctx.las, cfgs[op[1]]))
            ctx.writes[op[1]] = (ctx.last_write[1], snapshot(ctx.las))
        else:
            ctx.writes = {}
            apply_edit(ctx.las, op[1], step)
            if op[1] in INDEX_EDITS:
                ctx.dirty = True
            ctx.last_write = None
    return ctx


def col_quantum(cfg, j):
    f = cfg.get("column_fmt", {}).get(j, cfg.get("fmt", "%.5f"))
    t = f % 1.0
    return 10.0 ** (-len(t.split(".")[1])) if "." in t else 1.0


def fmt_quantum(cfg):
    f = cfg.get("column_fmt", {}).get(0, cfg.get("fmt", "%.5f"))
    s = f % 1.0
    if "." in s:
        return 10.0 ** (-len(s.split(".")[1]))
    return 1.0


def step_check(root, tier, history, op):
    cfgs = write_cfgs(tier)
    vio = []
    try:
        ctx = replay_history(root, tier, history)
    except Exception as e:
        return [viol("replay-diverged", root, tier, history, op, "history replays", repr(e))], None
    las = ctx.las
    step = len(history)
    if op[0] == "e":
        try:
            ok = apply_edit(las, op[1], step)
        except Exception as e:
            return [], None  # edit not applicable in this state
        if not ok:
            return [], None
        dirty = ctx.dirty or op[1] in INDEX_EDITS
        return [], state_key(las, None, dirty, ())
    cfg = cfgs[op[1]]
    # a bystander: another LASFile built from scratch in the same process, never written - it must not notice the write
    bystander = lasio.LASFile()
    bystander.append_curve("DEPT", np.array([7.0, 8.0]))
    by_before = snapshot(bystander)
    before = snapshot(las)
    try:
        text = do_write(las, cfg)
    except Exception as e:
        if isinstance(e, KeyError) and "NULL" in str(e) and "NULL" not in [i.original_mnemonic.upper() for i in las.well]:
            # no NULL item and a NaN to emit: what to write is not defined by any statement; the object must be left as it was
            if snapshot(las)["curves"] != before["curves"]:
                return [viol("failed-write-changed-data", root, tier, history, op, "curve data untouched by a write that raises", "changed")], None
            return [], None
        return [viol("write-raises", root, tier, history, op, "write succeeds", "%s: %s" % (type(e).__name__, str(e)[:150]))], None
    after = snapshot(las)
    if snapshot(bystander) != by_before:
        vio.append(viol("write-changed-another-object", root, tier, history, op, "a LASFile that was not written keeps its header and data",
                        canon.diff_tags(by_before, snapshot(bystander))))
    # (a) frame
    bad = frame_diff(before, after, "wrap" in cfg)
    if bad:
        vio.append(viol("frame", root, tier, history, op, "only STRT/STOP/STEP value+unit, curves[0].unit, WRAP (if wrap=), empty->0 may change",
                        [list(map(str, b)) for b in bad[:3]]))
    # (b) repeat
    if ctx.last_write is not None and ctx.last_write[0] == op[1]:
        if ctx.last_write[1] != text:
            vio.append(viol("repeat-text", root, tier, history, op, "byte-identical output on the second write",
                            _first_text_diff(ctx.last_write[1], text)))
        if before != after:
            vio.append(viol("repeat-memory", root, tier, history, op, "no further in-memory change on the second write",
                            canon.diff_tags(before, after)))
    # (b') the same options used earlier (other writes in between, no edit), the object in the very state that earlier
    # write left it in: the text is the same again
    elif op[1] in ctx.writes and ctx.writes[op[1]][1] == before:
        if ctx.writes[op[1]][0] != text:
            vio.append(viol("repeat-text-after-other-writes", root, tier, history, op,
                            "byte-identical output for the same options and the same in-memory state", _first_text_diff(ctx.writes[op[1]][0], text)))
    # (b'') round 8: the text is a function of the in-memory state and the options, not of which writes came before.
    # The same root with the edits of this history but none of its writes, when it is in the very same in-memory state,
    # must give the same text (catches anything a write leaves behind on the object outside its sections and curves).
    if any(h[0] == "w" for h in history):
        try:
            fresh = replay_history(root, tier, [h for h in history if h[0] == "e"]).las
            if snapshot(fresh) != before:
                do_write(fresh, cfg)   # a first write with these very options brings STRT/STOP/STEP and '' -> 0 up to date
            if snapshot(fresh) == before:
                ftext = do_write(fresh, cfg)
                if ftext != text:
                    vio.append(viol("text-depends-on-earlier-writes", root, tier, history, op,
                                    "the text a never-written object in the same in-memory state gives for these options",
                                    _first_text_diff(ftext, text)))
        except Exception:
            pass
    # (d) the output carries the data as it is in memory now (to format precision), NaN as NULL
    try:
        back_d = lasio.read(text)
        if all(c.data.dtype.kind == "f" for c in las.curves):
            for j, c in enumerate(las.curves):
                if j >= len(back_d.curves):
                    vio.append(viol("output-data", root, tier, history, op, "curve %d present in the output" % j, len(back_d.curves)))
                    break
                mem = np.asarray(c.data, dtype=float)
                out = np.asarray(list(back_d.curves)[j].data, dtype=float)
                q = col_quantum(cfg, j) / 2 + 1e-9
                same = mem.shape == out.shape and np.array_equal(np.isnan(mem), np.isnan(out))
                if same and mem.size:
                    same = float(np.max(np.abs(np.nan_to_num(mem) - np.nan_to_num(out)))) <= q
                if not same:
                    vio.append(viol("output-data", root, tier, history, op, {"curve": j, "memory": mem.tolist()}, out.tolist()))
                    break
    except Exception as e:
        pass  # unreadable output is reported by clause (c) when it applies
    # (c) truthfulness
    if ctx.dirty and las.curves[0].data.dtype.kind == "f":
        try:
            back = lasio.read(text)
            idx = back.index
            q = fmt_quantum(cfg) / 2 + 0.5e-5 + 1e-9
            want = {"STRT": idx[0], "STOP": idx[-1]}
            if len(idx) > 1:
                want["STEP"] = idx[1] - idx[0]
            got = {}
            for k, w in want.items():
                g = back.well[k].value
                got[k] = g
                tol = q * (2 if k == "STEP" else 1)
                if not isinstance(g, (int, float, np.integer, np.floating)) or abs(float(g) - float(w)) > tol:
                    vio.append(viol("truth-" + k, root, tier, history, op, {k: float(w), "index": idx.tolist()[:4]}, {k: repr(g)}))
            units = {k: back.well[k].unit for k in ("STRT", "STOP", "STEP")}
            if len(set(units.values()) | {back.curves[0].unit}) != 1:
                vio.append(viol("truth-units", root, tier, history, op, {"index unit": back.curves[0].unit}, units))
        except Exception as e:
            vio.append(viol("output-unreadable", root, tier, history, op, "read(output) succeeds", "%s: %s" % (type(e).__name__, str(e)[:150])))
    if vio:
        return vio, None
    return vio, state_key(las, op[1], ctx.dirty, tuple(sorted(set(ctx.writes) | {op[1]})))


def _first_text_diff(a, b):
    la, lb = a.splitlines(), b.splitlines()
    for i, (x, y) in enumerate(zip(la, lb)):
        if x != y:
            return {"line": i + 1, "first": x, "second": y}
    return {"lines": [len(la), len(lb)]}


def state_key(las, last_write, dirty, written=()):
    """`written` = the write configurations used since the last edit (module-level writer state may remember them)."""
    snap = snapshot(las)
    ii = None if las.index_initial is None else _bytes(np.asarray(las.index_initial))
    return hashlib.blake2b(repr((snap, ii, last_write, dirty, written)).encode(), digest_size=10).hexdigest()


def viol(clause, root, tier, history, op, expected, observed):
    cfgs = write_cfgs(tier)
    desc = [("write %r" % (cfgs[o[1]],)) if o[0] == "w" else o[1] for o in history + [op]]
    return {"clause": clause, "sig": "%s:%s" % (root.split("-")[0], op[0] + (":" + ",".join(sorted(cfgs[op[1]])) if op[0] == "w" else "")),
            "witness": {"root": root, "tier": tier, "history": history, "op": op, "readable": desc,
                        "root_text": ROOTS.get(root)},
            "expected": expected, "observed": observed, "size": len(history),
            "repro": "root %s then %s" % (root, " ; ".join(desc))}


def units(tier, seed):
    us = []
    for root in ROOTS:
        for op in alphabet(tier):
            us.append({"root": root, "tier": tier, "first": op})
    # write sequences a, b, a in a process of their own (forked per sequence): whatever the writer remembers between
    # calls at module level cannot hide behind histories explored earlier in the same worker
    n = len(write_cfgs(tier))
    for root in ("scratch-wide", "read-agree"):
        for a in range(n):
            us.append({"kind": "isolated", "root": root, "tier": tier, "a": a})
    return us


def _isolated_sequences(root, tier, a):
    """Runs in a FRESH interpreter (a worker of the pool has a writing history of its own, and a fork would inherit
    it); inside it every sequence a, b, a runs in a fork of the still pristine interpreter."""
    import base64
    import os
    import pickle
    import subprocess
    import sys
    repo = os.path.realpath(os.environ.get("VERIF_REPO", "/repo"))
    vroot = os.path.dirname(os.path.dirname(os.path.dirname(os.path.abspath(__file__))))
    code = ("import sys, logging; sys.path.insert(0, %r); sys.path.insert(0, %r); logging.disable(logging.CRITICAL);"
            "from lasiomc.checks import c16; c16._isolated_main(%r, %r, %d)") % (vroot, repo, root, tier, a)
    p = subprocess.run([sys.executable, "-c", code], stdout=subprocess.PIPE, stderr=subprocess.PIPE, text=True, timeout=600)
    for line in p.stdout.splitlines():
        if line.startswith("RESULT"):
            return pickle.loads(base64.b64decode(line[6:]))
    raise RuntimeError("isolated interpreter failed: " + p.stderr[-400:])


def _isolated_main(root, tier, a):
    import base64
    import pickle
    from ..core import isolate
    out = []
    n = len(write_cfgs(tier))
    for b in range(n):
        if b == a:
            continue
        vio, key = isolate.call(step_check, root, tier, [["w", a], ["w", b]], ["w", a])
        out.append((b, vio, key))
    print("RESULT" + base64.b64encode(pickle.dumps(out)).decode())


def run_unit(unit):
    root, tier = unit["root"], unit["tier"]
    if unit.get("kind") == "isolated":
        res = {"evals": 0, "nontrivial": set(), "outcomes": {}, "violations": [], "samples": [],
               "states": set(), "transitions": 0, "traces": 0, "max_depth": 3}
        for b, vio, key in _isolated_sequences(root, tier, unit["a"]):
            res["evals"] += 1
            res["transitions"] += 1
            res["traces"] += 1
            res["violations"].extend(vio)
            oc = "isolated-w:" + ("ok" if key else ("violation" if vio else "n/a"))
            res["outcomes"][oc] = res["outcomes"].get(oc, 0) + 1
            if key:
                res["states"].add(key)
                res["nontrivial"].add(key)
        res["samples"].append({"root": root, "isolated_sequence": [["w", unit["a"]], ["w", "b"], ["w", unit["a"]]]})
        from ..core import e1
        res["violations"] = e1.compress(res["violations"])
        return res
    depth = DEPTH[tier] if root != "scratch-big" else 1   # the 1000 x 16 root only takes single operations
    res = {"evals": 0, "nontrivial": set(), "outcomes": {}, "violations": [], "samples": [],
           "states": set(), "transitions": 0, "traces": 0, "max_depth": 0}
    seen = set()
    alpha = alphabet(tier)

    def expand(history, op):
        vio, key = step_check(root, tier, history, op)
        res["transitions"] += 1
        res["traces"] += 1
        res["evals"] += 1
        oc = op[0] + (":ok" if key else (":violation" if vio else ":n/a"))
        res["outcomes"][oc] = res["outcomes"].get(oc, 0) + 1
        res["violations"].extend(vio)
        if key and key not in seen:
            seen.add(key)
            if any(o[0] == "w" for o in history + [op]):
                res["nontrivial"].add(key)
            return history + [op]
        return None

    frontier = []
    h = expand([], unit["first"])
    if h:
        frontier.append(h)
        res["max_depth"] = 1
    for d in range(2, depth + 1):
        nxt = []
        for hist in frontier:
            for op in alpha:
                h2 = expand(hist, op)
                if h2:
                    nxt.append(h2)
        if frontier:
            res["max_depth"] = d
        frontier = nxt
    res["states"] = seen
    if frontier:
        res["samples"].append({"root": root, "history": frontier[0]})
    from ..core import e1
    res["violations"] = e1.compress(res["violations"])
    return res


def replay(witness):
    vio, _ = step_check(witness["root"], witness["tier"], witness["history"], witness["op"])
    return vio
