"""C18 - JSON, CSV, Excel, DataFrame and depth views carry the same values as
the curves.  E1 over LASFile objects x export options x index-unit spellings,
each output decoded by an independent reader (json, csv, openpyxl, pandas)."""
import csv
import io
import itertools
import json
import math
import os
import shutil
import tempfile

import numpy as np

import lasio
from lasio import exceptions

from ..core import e1

PROPERTY = "C18"
LEVEL = "exploration"
RULE = (
    "objects: default LASFile, scratch LASFiles (float curves with NaN cells, single curve, single row), files read with "
    "integer/float/text header values, float and text curves, NaN cells, duplicated and blank mnemonics, header-only, object-dtype curves holding NaN next to text (set_data / set_data_from_df with a text column); "
    "JSON decoded by json.loads with parse_constant raising; CSV for the full product mnemonics {True, False, list} x "
    "units {True, False, list} x units_loc {line, [], (), None} x lineterminator x delimiter decoded by csv.reader; "
    "Excel decoded by openpyxl; df()/set_data_from_df; the JSON / df / sequence / Excel views and five csv option points additionally on every object read from the shared input families (example corpus, generated files and mutations, version shapes); every view produced again after in-place edits of the float curves; depth views for every member of DEPTH_UNITS in upper/lower/title "
    "case on STRT, STOP, STEP, curve 0 individually and jointly, all conflicting pairs, non-members, forced index_unit; "
    "non-trivial = export of an object with >= 1 curve, or a unit case other than the table's own spelling"
)
ASSUMPTIONS = [
    "JSON layout as produced by lasio: metadata[section][session mnemonic] = value, data[session mnemonic] = samples",
    "to_csv with units=True and units_loc=None writes no units (nothing to check)",
    "depth consistency tolerance: 4 ulp of the product",
]

TEXT_MAIN = (
    "~V\nVERS. 2.0 : v\nWRAP. NO : w\n~W\nSTRT.M 1.0 : start\nSTOP.M 3.0 : stop\nSTEP.M 1.0 : step\nNULL. -999.25 : null\n"
    "WELL. my well : name\nRUN. 3 : integer value\nTEMP.degC 35.5 : float value\nUWI. 0012345 : text digits\n"
    "~C\nDEPT.M : depth\nGR.GAPI 11 : gamma\nGR.GAPI 12 : gamma again\n. : blank name\n~P\nP1.U 3 : int param\nP2. text : text param\n"
    "~O\nsome other text\n~A\n1.0 10.5 7 100\n2.0 -999.25 8 200\n3.0 30.5 -999.25 300\n"
)
TEXT_STR = (
    "~V\nVERS. 2.0 : v\nWRAP. NO : w\n~W\nSTRT.M 1.0 : start\nSTOP.M 2.0 : stop\nSTEP.M 1.0 : step\nNULL. -999 : null\n"
    "~C\nDEPT.M : depth\nLITH. : text curve\nX. : x\n~P\nRUN. 3 :\n~A\n1 sand 5.5\n2 shale -999\n"
)
TEXT_HEADER_ONLY = "~V\nVERS. 2.0 : v\nWRAP. NO : w\n~W\nSTRT.M 1.0 : start\nSTOP.M 2.0 : stop\nSTEP.M 1.0 : step\nNULL. -999 : null\n~C\n~P\n"
TEXT_ONE = "~V\nVERS. 2.0 : v\nWRAP. NO : w\n~W\nSTRT.FT 5 : start\nSTOP.FT 5 : stop\nSTEP.FT 0 : step\nNULL. -999.25 : null\n~C\nDEPT.FT : depth\n~A\n5\n"


def objects():
    def scratch():
        las = lasio.LASFile()
        las.append_curve("DEPT", np.array([1.0, 2.0, 3.0]), unit="m")
        las.append_curve("A", np.array([np.nan, 2.5, -1e30]), unit="u")
        las.append_curve("B", np.array([1e-7, np.nan, 123456789.125]))
        return las

    def scratch_row():
        las = lasio.LASFile()
        las.append_curve("DEPT", np.array([7.0]), unit="ft")
        las.append_curve("A", np.array([np.nan]))
        return las

    def setdata_mixed():
        las = lasio.LASFile()
        las.set_data(np.array([[1.0, "sand", np.nan, 7.5], [2.0, "shale", 3.5, np.nan]], dtype=object), names=["DEPT", "LITH", "GR", "RT"])
        return las

    def from_df():
        import pandas as pd
        las = lasio.LASFile()
        df = pd.DataFrame({"LITH": ["sand", "shale", "lime"], "GR": [np.nan, 2.5, 3.5]}, index=pd.Index([1.0, 2.0, 3.0], name="DEPT"))
        las.set_data_from_df(df)
        return las

    def rows(n):
        def make():
            las = lasio.LASFile()
            las.append_curve("DEPT", np.arange(n) * 0.5 + 1000.0, unit="m")
            las.append_curve("A", np.arange(n) * 0.25 - 7.0, unit="u")
            return las
        return make

    return [
        # row counts at and around round numbers (block-wise export must not lose or repeat records)
        ("rows-999", rows(999)), ("rows-1000", rows(1000)), ("rows-1001", rows(1001)), ("rows-2000", rows(2000)), ("rows-256", rows(256)),
        ("rows-4096", rows(4096)),
        ("setdata-mixed", setdata_mixed),
        ("from-df-mixed", from_df),
        ("default", lambda: lasio.LASFile()),
        ("scratch", scratch),
        ("scratch-row", scratch_row),
        ("read-main", lambda: lasio.read(TEXT_MAIN)),
        ("read-main-preserve", lambda: lasio.read(TEXT_MAIN, mnemonic_case="preserve")),
        ("read-text-curve", lambda: lasio.read(TEXT_STR)),
        ("read-header-only", lambda: lasio.read(TEXT_HEADER_ONLY)),
        ("read-one", lambda: lasio.read(TEXT_ONE)),
    ]


class _Objects(dict):
    """Named object constructors; names 'in:<tier>:<i>' are inputs of the shared families (example corpus, generated
    files and their mutations, version shapes) read with the default options."""

    def __missing__(self, name):
        if not name.startswith("in:"):
            raise KeyError(name)
        _, tier, i = name.split(":")
        text = _file_inputs(tier)[int(i)][1]
        return lambda: lasio.read(text)


_FI = {}


def _file_inputs(tier):
    if tier not in _FI:
        from ..core import inputs
        _FI[tier] = [(n, t) for n, t in inputs.all_inputs(tier) if t.count("\n") <= (400 if tier == "quick" else 3000)]
    return _FI[tier]


OBJ = _Objects(objects())
# csv option points explored on every input-derived object (the full 144-option product stays on the hand-made objects)
CSV_FILE_COMBOS = [[True, True, "line", None, None], [True, True, "[]", None, None], [False, False, None, "\r\n", ";"],
                   ["list", "list", "()", None, None], [True, False, "line", None, ";"]]
CSV_AXES = [
    ("mnemonics", [True, False, "list"]), ("units", [True, False, "list"]), ("units_loc", ["line", "[]", "()", None]),
    ("lineterminator", [None, "\r\n"]), ("delimiter", [None, ";"]),
]


def depth_cases():
    from lasio import defaults
    cases = []
    members = []
    for canonical, spellings in defaults.DEPTH_UNITS.items():
        for sp in spellings:
            for variant in {sp, sp.upper(), sp.lower(), sp.title()}:
                members.append((canonical, variant))
    slots = ["STRT", "STOP", "STEP", "CURVE"]
    for canonical, sp in members:
        for slot in slots:
            cases.append({"units": {s: (sp if s == slot else "") for s in slots}, "expect": canonical})
        cases.append({"units": {s: sp for s in slots}, "expect": canonical})
    reps = {"FT": ["FT", "feet", "F"], "M": ["M", "metres", "м"], ".1IN": [".1IN", "0.1inch"]}
    for a, b in itertools.permutations(reps, 2):
        for ua in reps[a]:
            for ub in reps[b]:
                cases.append({"units": {"STRT": ua, "STOP": ua, "STEP": ua, "CURVE": ub}, "expect": None})
                cases.append({"units": {"STRT": ua, "STOP": ub, "STEP": "", "CURVE": ""}, "expect": None})
    for non in ("in", "km", "", "s", "MS", "feets", "INCH"):
        cases.append({"units": {s: non for s in slots}, "expect": None})
    for forced, exp in (("m", "m"), ("ft", "ft"), ("M", None), ("metres", "m")):
        cases.append({"units": {s: "km" for s in slots}, "force": forced, "expect_forced": exp})
    # every case also for files read with mnemonic_case lower / preserve (the items are then stored as strt / stop / step)
    cases = cases + [dict(c, case="lower") for c in cases if "force" not in c] + [dict(c, case="preserve") for c in cases[::4] if "force" not in c]
    return cases

def bounds(tier):
    return {"objects": list(OBJ), "csv_option_product": 144, "depth_cases": len(depth_cases())}


def points(tier):
    pts = []
    for name in OBJ:
        pts.append(["sequence", name])
        pts.append(["json", name])
        pts.append(["excel", name])
        pts.append(["df", name])
        for combo in itertools.product(*[v for _, v in CSV_AXES]):
            pts.append(["csv", name, list(combo)])
    for i, (iname, text) in enumerate(_file_inputs(tier)):
        name = "in:%s:%d" % (tier, i)
        pts.append(["json", name])
        pts.append(["df", name])
        pts.append(["sequence", name])
        for combo in CSV_FILE_COMBOS:
            pts.append(["csv", name, list(combo)])
        if tier == "thorough" or text.count("\n") <= 120:
            pts.append(["excel", name])
    cases = depth_cases()
    for i in range(0, len(cases), 25):
        pts.append(["depth", i, min(i + 25, len(cases))])
    return pts


def _isnum(v):
    return isinstance(v, (int, float, np.integer, np.floating)) and not isinstance(v, (bool, np.bool_))


def _isnan(v):
    try:
        return isinstance(v, (float, np.floating)) and math.isnan(float(v))
    except Exception:
        return False


def V(clause, pt, expected, observed, sig=None):
    objname = pt[1]
    if isinstance(objname, str) and objname.startswith("in:"):
        _, tier, i = objname.split(":")
        objname = "in:" + _file_inputs(tier)[int(i)][0].split(":")[0]   # family name (corpus / gen / mut / versions / ...)
    return {"clause": clause, "sig": sig or "%s:%s" % (pt[0], objname), "witness": {"point": pt}, "expected": expected, "observed": observed,
            "size": len(repr(pt)), "repro": "see replay; object '%s' of lasiomc.checks.c18.objects()" % (pt[1],)}


def check_json(pt):
    # another object is exported first: what one export puts into the document must not show up in the next one
    try:
        other = lasio.LASFile()
        other.append_curve("DEPT", np.array([1.0, 2.0]))
        other.append_curve("ZZ_OTHER_CURVE", np.array([5.0, 6.0]))
        other.sections["ZZ_Other_Section"] = lasio.SectionItems([lasio.HeaderItem("ZZ", "", 1, "only in the other object")])
        other.to_json()
    except Exception:
        pass
    las = OBJ[pt[1]]()

    def strict(c):
        raise ValueError("non-JSON constant " + c)

    outs = []
    for how in ("to_json", "json"):
        try:
            text = las.to_json() if how == "to_json" else las.json
        except Exception as e:
            return [V("json-raises", pt, "JSON text", "%s: %s" % (type(e).__name__, str(e)[:160]))]
        outs.append(text)
    if outs[0] != outs[1]:
        return [V("json-property-differs", pt, "las.json == las.to_json()", "differ")]
    try:
        doc = json.loads(outs[0], parse_constant=strict)
    except Exception as e:
        return [V("json-not-strict", pt, "text accepted by a strict JSON parser", "%s: %s" % (type(e).__name__, str(e)[:160]))]
    vio = []
    for name, sec in las.sections.items():
        got = doc.get("metadata", {}).get(name, "<missing>")
        if isinstance(sec, str):
            if got != sec:
                vio.append(V("json-header", pt, {name: sec}, got))
            continue
        for it in sec:
            if not isinstance(got, dict) or it.mnemonic not in got:
                vio.append(V("json-header-missing", pt, "%s.%s present" % (name, it.mnemonic), str(got)[:120]))
                break
            g = got[it.mnemonic]
            v = it.value
            if _isnan(v):
                ok = g is None
            elif _isnum(v):
                ok = isinstance(g, (int, float)) and not isinstance(g, bool) and float(g) == float(v) and \
                     (isinstance(g, int) == isinstance(v, (int, np.integer)))
            else:
                ok = g == v
            if not ok:
                vio.append(V("json-header-value", pt, {"item": "%s.%s" % (name, it.mnemonic), "value": repr(v)}, repr(g)))
                break
    for c in las.curves:
        got = doc.get("data", {}).get(c.mnemonic, "<missing>")
        want = [None if _isnan(x) else (x.item() if hasattr(x, "item") else x) for x in np.asarray(c.data)]
        if got != want:
            vio.append(V("json-data", pt, {c.mnemonic: want}, got))
            break
    # ... and nothing else: the document holds this object's sections and curves only
    if isinstance(doc.get("data"), dict) and set(doc["data"]) != {c.mnemonic for c in las.curves}:
        vio.append(V("json-foreign-curves", pt, sorted(c.mnemonic for c in las.curves), sorted(doc["data"])))
    if isinstance(doc.get("metadata"), dict) and set(doc["metadata"]) != set(las.sections):
        vio.append(V("json-foreign-sections", pt, sorted(las.sections), sorted(doc["metadata"])))
    else:
        for name, sec in las.sections.items():
            if not isinstance(sec, str) and isinstance(doc["metadata"].get(name), dict) and set(doc["metadata"][name]) != {i.mnemonic for i in sec}:
                vio.append(V("json-foreign-items", pt, sorted(i.mnemonic for i in sec), sorted(doc["metadata"][name])))
                break
    return vio


def check_csv(pt):
    las = OBJ[pt[1]]()
    opts = dict(zip([n for n, _ in CSV_AXES], pt[2]))
    nc = len(las.curves)
    kw = {}
    mn = opts["mnemonics"]
    un = opts["units"]
    if mn == "list":
        mn = ["m%d" % j for j in range(nc)]
    if un == "list":
        un = ["u%d" % j for j in range(nc)]
    kw["mnemonics"] = list(mn) if isinstance(mn, list) else mn
    kw["units"] = list(un) if isinstance(un, list) else un
    kw["units_loc"] = opts["units_loc"]
    if opts["lineterminator"]:
        kw["lineterminator"] = opts["lineterminator"]
    if opts["delimiter"]:
        kw["delimiter"] = opts["delimiter"]
    s = io.StringIO(newline="")
    args_before = (list(kw["mnemonics"]) if isinstance(kw["mnemonics"], list) else kw["mnemonics"],
                   list(kw["units"]) if isinstance(kw["units"], list) else kw["units"])
    try:
        las.to_csv(s, **kw)
        # exporting must not write into the caller's arguments, and exporting twice gives the same text
        if (kw["mnemonics"], kw["units"]) != args_before:
            return [V("csv-mutates-argument", pt, {"mnemonics": args_before[0], "units": args_before[1]},
                      {"mnemonics": kw["mnemonics"], "units": kw["units"]})]
        s2 = io.StringIO(newline="")
        las.to_csv(s2, **kw)
        if s2.getvalue() != s.getvalue():
            return [V("csv-second-export-differs", pt, s.getvalue()[:200], s2.getvalue()[:200])]
    except Exception as e:
        if nc == 0:
            return [V("csv-raises-without-curves", pt, "zero records for zero depth steps", "%s: %s" % (type(e).__name__, str(e)[:120]),
                      sig="csv:no-curves")]
        return [V("csv-raises", pt, "CSV text", "%s: %s" % (type(e).__name__, str(e)[:160]))]
    text = s.getvalue()
    lt = opts["lineterminator"] or "\n"
    if text and not text.endswith(lt):
        return [V("csv-lineterminator", pt, repr(lt), repr(text[-4:]))]
    if lt == "\n" and "\r" in text:
        return [V("csv-lineterminator", pt, "no CR", "CR present")]
    rows = list(csv.reader(io.StringIO(text, newline=""), delimiter=opts["delimiter"] or ","))
    exp_mn = [c.original_mnemonic for c in las.curves] if mn is True else mn
    exp_un = [c.unit for c in las.curves] if un is True else un
    head = []
    if exp_mn:
        if opts["units_loc"] in ("()", "[]") and exp_un:
            head.append(["%s %s%s%s" % (m, opts["units_loc"][0], u, opts["units_loc"][1]) for m, u in zip(exp_mn, exp_un)])
        else:
            head.append(list(exp_mn))
    if exp_un and opts["units_loc"] == "line":
        head.append(list(exp_un))
    vio = []
    if rows[:len(head)] != head:
        vio.append(V("csv-header-rows", pt, head, rows[:len(head) + 1]))
        return vio
    recs = rows[len(head):]
    nrows = len(las.curves[0].data) if nc else 0
    if len(recs) != nrows:
        vio.append(V("csv-record-count", pt, nrows, len(recs)))
        return vio
    for i, rec in enumerate(recs):
        if len(rec) != nc:
            vio.append(V("csv-field-count", pt, nc, rec))
            break
        for j, field in enumerate(rec):
            x = np.asarray(list(las.curves)[j].data)[i]
            if isinstance(x, (str, np.str_)):
                ok = field == str(x)
            elif _isnan(x):
                ok = field.strip().lower() in ("nan", "")
            else:
                try:
                    ok = float(field) == float(x)
                except ValueError:
                    ok = False
            if not ok:
                vio.append(V("csv-value", pt, {"row": i, "col": j, "value": repr(x)}, field))
                return vio
    return vio


def check_excel(pt):
    import openpyxl
    las = OBJ[pt[1]]()
    d = tempfile.mkdtemp(prefix="c18.", dir=os.path.join(os.path.dirname(os.path.dirname(os.path.dirname(os.path.abspath(__file__)))), "out"))
    try:
        path = os.path.join(d, "x.xlsx")
        try:
            las.to_excel(path)
        except Exception as e:
            return [V("excel-raises", pt, "workbook written", "%s: %s" % (type(e).__name__, str(e)[:160]))]
        wb = openpyxl.load_workbook(path)
        vio = []
        if wb.sheetnames[:2] != ["Header", "Curves"]:
            return [V("excel-sheets", pt, ["Header", "Curves"], wb.sheetnames)]
        rows = [list(r) for r in wb["Header"].iter_rows(values_only=True)][1:]
        want = []
        for label, sec in (("~Version", las.version), ("~Well", las.well), ("~Parameter", las.params), ("~Curves", las.curves)):
            for it in sec:
                want.append([label, it.mnemonic, it.unit, it.value, it.descr])

        def norm(v):
            if v is None or v == "":
                return None
            if _isnan(v):
                return None
            if _isnum(v):
                return float(v)
            return v

        got = [[norm(c) for c in r[:5]] for r in rows]
        wantn = [[norm(c) for c in r] for r in want]
        if got != wantn:
            for a, b in itertools.zip_longest(wantn, got):
                if a != b:
                    vio.append(V("excel-header", pt, a, b))
                    break
        cs = [list(r) for r in wb["Curves"].iter_rows(values_only=True)]
        nc = len(las.curves)
        if nc:
            if [norm(x) for x in cs[0][:nc]] != [norm(c.mnemonic) for c in las.curves]:
                vio.append(V("excel-curve-names", pt, [c.mnemonic for c in las.curves], cs[0]))
            for j, c in enumerate(las.curves):
                col = [r[j] if j < len(r) else None for r in cs[1:]]
                data = np.asarray(c.data)
                col = col[:len(data)] + [None] * max(0, len(data) - len(col))
                for i, x in enumerate(data):
                    g = col[i]
                    if _isnan(x):
                        ok = g in (None, "")
                    elif isinstance(x, (str, np.str_)):
                        ok = g == str(x)
                    else:
                        ok = g is not None and not isinstance(g, str) and float(g) == float(x)
                    if not ok:
                        vio.append(V("excel-sample", pt, {"curve": c.mnemonic, "row": i, "value": repr(x)}, repr(g)))
                        break
        return vio[:3]
    finally:
        shutil.rmtree(d, ignore_errors=True)


def check_df(pt):
    las = OBJ[pt[1]]()
    nc = len(las.curves)
    try:
        df = las.df()
    except Exception as e:
        if nc == 0:
            return []  # no first curve to use as index: outside the statement
        return [V("df-raises", pt, "DataFrame", "%s: %s" % (type(e).__name__, str(e)[:160]))]
    vio = []
    if nc:
        if list(df.columns) != [c.mnemonic for c in las.curves[1:]] or df.index.name != las.curves[0].mnemonic:
            vio.append(V("df-names", pt, las.keys(), [df.index.name] + list(df.columns)))
        idx = np.asarray(df.index.values)
        if not _same(idx, las.curves[0].data):
            vio.append(V("df-index", pt, np.asarray(las.curves[0].data).tolist(), idx.tolist()))
        for j, c in enumerate(las.curves[1:]):
            if not _same(np.asarray(df.iloc[:, j].values), c.data):
                vio.append(V("df-values", pt, {c.mnemonic: np.asarray(c.data).tolist()}, np.asarray(df.iloc[:, j].values).tolist()))
                break
        keys_before = las.keys()
        vals_before = [np.array(c.data) for c in las.curves]
        try:
            las.set_data_from_df(df)
            if las.keys() != keys_before:
                vio.append(V("df-restore-names", pt, keys_before, las.keys()))
            elif any(not _same(a, c.data) for a, c in zip(vals_before, las.curves)):
                vio.append(V("df-restore-values", pt, [a.tolist() for a in vals_before], [np.asarray(c.data).tolist() for c in las.curves]))
            fresh = lasio.LASFile()
            fresh.set_data_from_df(df)
            # (a frame without rows creates no curves in a fresh object - set_data skips empty data by design)
            if len(df) and (fresh.keys() != keys_before or any(not _same(a, c.data) for a, c in zip(vals_before, fresh.curves))):
                vio.append(V("df-restore-fresh", pt, keys_before, fresh.keys()))
        except Exception as e:
            vio.append(V("df-restore-raises", pt, "set_data_from_df(df()) succeeds", "%s: %s" % (type(e).__name__, str(e)[:160])))
    return vio


def _same(a, b):
    a, b = np.asarray(a), np.asarray(b)
    if a.shape != b.shape:
        return False
    for x, y in zip(a.tolist(), b.tolist()):
        if _isnan(x) and _isnan(y):
            continue
        if isinstance(x, str) or isinstance(y, str):
            if str(x) != str(y):
                try:
                    if float(x) != float(y):
                        return False
                except Exception:
                    return False
            continue
        if x != y:
            return False
    return True


def check_depth(pt):
    vio = []
    cases = depth_cases()[pt[1]:pt[2]]
    n = 0
    nt = 0
    for case in cases:
        u = case["units"]
        text = ("~V\nVERS. 2.0 : v\nWRAP. NO : w\n~W\nSTRT.%s 120 : start\nSTOP.%s 360 : stop\nSTEP.%s 120 : step\nNULL. -999.25 : n\n"
                "~C\nDEPT .%s : depth\nGR. : gr\n~A\n120 1\n240 2\n360.5 3\n") % (u["STRT"], u["STOP"], u["STEP"], u["CURVE"])
        # (a blank before the delimiter: 'DEPT..1IN' would be the documented double-dot form of ~Curves)
        n += 1
        kw = {}
        if "force" in case:
            kw["index_unit"] = case["force"]
        if case.get("case"):
            kw["mnemonic_case"] = case["case"]
        try:
            las = lasio.read(text, **kw)
        except Exception as e:
            vio.append(V("depth-read-raises", pt, "file reads", "%s: %s" % (type(e).__name__, str(e)[:120]), sig="depth:read"))
            continue
        w = {"point": ["depth1", case], "text": text}
        if "force" in case:
            exp = case["expect_forced"]
            if exp is not None and las.index_unit != exp:
                v = V("depth-forced-unit", pt, exp, las.index_unit, sig="depth:forced")
                v["witness"] = w
                vio.append(v)
            continue
        exp = case["expect"]
        from lasio import defaults
        own = any(sp in defaults.DEPTH_UNITS.get(exp or "", ()) for sp in u.values())
        if not own:
            nt += 1
        if las.index_unit != exp:
            feats = "cyrillic" if any(ord(ch) > 127 for s in u.values() for ch in s) else "latin"
            v = V("depth-unit-recognition", pt, exp, las.index_unit, sig="depth:recognition:%s:%s" % (feats, "member" if exp else "non-member/conflict"))
            v["witness"] = w
            vio.append(v)
            continue
        idx = np.asarray(las.index, dtype=float)
        if exp is None:
            for prop in ("depth_m", "depth_ft"):
                try:
                    getattr(las, prop)
                    v = V("depth-defined-on-unknown-unit", pt, "LASUnknownUnitError", prop + " returned", sig="depth:unknown")
                    v["witness"] = w
                    vio.append(v)
                except exceptions.LASUnknownUnitError:
                    pass
                except Exception as e:
                    v = V("depth-wrong-exception", pt, "LASUnknownUnitError", repr(e), sig="depth:unknown")
                    v["witness"] = w
                    vio.append(v)
            continue
        try:
            dm, dft = np.asarray(las.depth_m, float), np.asarray(las.depth_ft, float)
        except Exception as e:
            v = V("depth-raises", pt, "depth views defined for unit %s" % exp, repr(e), sig="depth:raises")
            v["witness"] = w
            vio.append(v)
            continue
        tol = 4 * np.spacing(np.abs(dft * 0.3048))
        ok = np.all(np.abs(dm - dft * 0.3048) <= tol)
        if exp == "M":
            ok = ok and np.array_equal(dm, idx)
        elif exp == "FT":
            ok = ok and np.array_equal(dft, idx)
        else:
            ok = ok and np.all(np.abs(dft - idx / 120) <= 4 * np.spacing(idx / 120))
        if not ok:
            v = V("depth-inconsistent", pt, {"unit": exp, "index": idx.tolist()}, {"depth_m": dm.tolist(), "depth_ft": dft.tolist()}, sig="depth:values")
            v["witness"] = w
            vio.append(v)
    return vio, n, nt


def check_sequence(pt):
    """Every view is produced once, then float curves are edited IN PLACE (a NaN cleared, a NaN set, a value
    changed), then every view is produced again and compared with the curves as they are now."""
    las = OBJ[pt[1]]()
    if not len(las.curves):
        return []
    vio = []
    try:
        s0 = io.StringIO(newline="")
        las.to_csv(s0)
        las.df()
        las.to_json()
    except Exception as e:
        return []  # first export failing is the business of the single-export points
    edited = False
    for c in list(las.curves)[1:]:
        d = c.data
        if isinstance(d, np.ndarray) and d.dtype.kind == "f" and len(d):
            d[0] = 123.5 if np.isnan(d[0]) else np.nan
            d[-1] = -77.25
            edited = True
    if not edited:
        return []
    cur = list(las.curves)
    # csv
    s1 = io.StringIO(newline="")
    las.to_csv(s1, mnemonics=False, units=False)
    rows = list(csv.reader(io.StringIO(s1.getvalue(), newline="")))
    for i, rec in enumerate(rows):
        for j, field in enumerate(rec):
            x = np.asarray(cur[j].data)[i]
            ok = (field.strip().lower() in ("nan", "")) if _isnan(x) else (field == str(x) or _num_equal(field, x))
            if not ok:
                vio.append(V("csv-stale-after-inplace-edit", pt, {"row": i, "col": j, "value": repr(x)}, field))
                break
        if vio:
            break
    # df
    try:
        df = las.df()
        for j, c in enumerate(cur[1:]):
            if not _same(np.asarray(df.iloc[:, j].values), c.data):
                vio.append(V("df-stale-after-inplace-edit", pt, {c.mnemonic: np.asarray(c.data).tolist()}, np.asarray(df.iloc[:, j].values).tolist()))
                break
    except Exception as e:
        vio.append(V("df-raises", pt, "DataFrame", repr(e)))
    # json
    try:
        doc = json.loads(las.to_json())
        for c in cur:
            want = [None if _isnan(x) else (x.item() if hasattr(x, "item") else x) for x in np.asarray(c.data)]
            if doc["data"].get(c.mnemonic) != want:
                vio.append(V("json-stale-after-inplace-edit", pt, {c.mnemonic: want}, doc["data"].get(c.mnemonic)))
                break
    except Exception as e:
        vio.append(V("json-raises", pt, "JSON", repr(e)))
    return vio


def _num_equal(field, x):
    try:
        return float(field) == float(x)
    except Exception:
        return False


def check_point(pt):
    kind = pt[0]
    if kind == "sequence":
        if pt[1].startswith("in:"):
            try:
                OBJ[pt[1]]()
            except Exception:
                return [], None, "skipped:input-does-not-read", {"skipped": 1}, 1
        vio = check_sequence(pt)
        return e1.compress(vio), (repr(pt), 1), kind, {}, 3
    if kind == "depth1":
        case = pt[1]
        all_cases = depth_cases()
        i = all_cases.index(case)
        vio, n, nt = check_depth(["depth", i, i + 1])
        return vio, None, kind, {}, n
    if kind == "depth":
        vio, n, nt = check_depth(pt)
        return e1.compress(vio), (repr(pt), nt), kind, {"depth_cases": n}, n
    fn = {"json": check_json, "csv": check_csv, "excel": check_excel, "df": check_df}[kind]
    if pt[1].startswith("in:"):
        try:
            OBJ[pt[1]]()
        except Exception:
            return [], None, "skipped:input-does-not-read", {"skipped": 1}, 1
    vio = fn(pt)
    nontriv = len(OBJ[pt[1]]().curves) > 0
    return e1.compress(vio), ((repr(pt), 1) if nontriv else None), kind, {}, 1


def replay(witness):
    return check_point(witness["point"])[0]


def units(tier, seed):
    _P[tier] = points(tier)
    return [{"tier": tier, "range": [i, min(i + 40, len(_P[tier]))]} for i in range(0, len(_P[tier]), 40)]


_P = {}


def run_unit(unit):
    tier = unit["tier"]
    if tier not in _P:
        _P[tier] = points(tier)
    res = {"evals": 0, "nontrivial": 0, "outcomes": {}, "violations": [], "samples": [], "extra": {}}
    for pt in _P[tier][unit["range"][0]:unit["range"][1]]:
        vio, nt, oc, counters, evals = check_point(pt)
        res["evals"] += evals
        res["nontrivial"] += nt[1] if nt else 0
        res["outcomes"][oc] = res["outcomes"].get(oc, 0) + 1
        for k, v in counters.items():
            res["extra"][k] = res["extra"].get(k, 0) + v
        res["violations"].extend(vio)
    res["samples"].append({"point": _P[tier][unit["range"][0]]})
    res["violations"] = e1.compress(res["violations"])
    return res
