"""C05 - every line is attributed to the section whose title precedes it.
E1 over section orders, title spellings, body shapes and steering decoys; the
expected content is known by construction."""
import itertools
import os

import numpy as np

import lasio

from ..core import canon, e1, lasgen, space

PROPERTY = "C05"
LEVEL = "exploration"
RULE = (
    "files = ~V followed by a permutation of {~W, ~C, ~P, ~O, custom ~X, ~A} (all 720), title spelling per section in "
    "{letter, lower-case letter, word, lower-case word, letter+trailing text}, body shape per section in {1 item, "
    "empty, 2 items, trailing blank, trailing comment}, ~O bodies incl. inner blank and item-looking lines, one "
    "steering decoy (VERS/WRAP/NULL/DLM with a value that would change parsing) in ~C, ~P or the custom section, "
    "LAS version 2.0 or 1.2 (the 1.2 ~W layout), 2..3 data rows with one genuine-NULL and one decoy-NULL cell, both engines, ignore_data on/off, blank/comment lines at the end or start of ~A, one undeclared surplus data column, a text column of ISO dates, ~W with or without a NULL item, decoys also in ~W (DLM, WRAP, VERS) and ~V (NULL); custom titles incl. ~MUD_DATA / ~mud_data / ~Run_parameter / ~TOOL_DEFINITION; up to three custom sections (one more after ~X, two more, one before ~A, an empty one, one with a near-identical title); ~C that is its title line only; enumeration = k-deviation ball "
    "around the canonical file with the order axis taking all 720 values; non-trivial = order differs from "
    "V,W,C,P,O,X,A or a title is not the upper-case letter form or a decoy is present"
)
ASSUMPTIONS = [
    "~V first; custom titles start with a letter outside VWCPOA and do not contain the LAS 3.0 spellings _Data/_Parameter/_Definition (other cases of these words are ordinary titles)",
    "title lines have no leading blanks; mnemonics are upper case (mnemonic_case default)",
    "~O bodies carry no trailing blank line (whether a trailing blank line is kept is not specified)",
]

SECS = "WCPOXA"
TITLES = {
    "V": ["~V", "~v", "~Version", "~version", "~V ersion information"],
    "W": ["~W", "~w", "~Well", "~well", "~W ell information block"],
    "C": ["~C", "~c", "~Curve", "~curve", "~C urve information"],
    "P": ["~P", "~p", "~Parameter", "~parameter", "~P arameter information"],
    "O": ["~O", "~o", "~Other", "~other", "~O ther information"],
    # (the LAS 3.0 spellings _Data / _Parameter / _Definition are excluded; other cases of the same words are ordinary titles)
    "X": ["~Xtra", "~xtra", "~X", "~x", "~Xtra custom block", "~MUD_DATA", "~mud_data notes", "~Run_parameter", "~TOOL_DEFINITION"],
    "A": ["~A", "~a", "~ASCII", "~ascii", "~A Log data section"],
}
BODIES = ["one", "empty", "two", "trailing_blank", "trailing_comment", "title_only"]
OBODIES = [["free text line"], [], ["line one", "", "line three"], ["#not a comment here", "X. 1 : looks like an item"],
           ["Shift applied: ~0.5 m", "see ~Well above (a tilde inside a line does not start a section)"]]
DECOYS = [None] + [[s, m] for s in "CPX" for m in ("VERS", "WRAP", "NULL", "DLM")] + [["W", "DLM"], ["W", "WRAP"], ["W", "VERS"], ["V", "NULL"]]
DECOY_VALUE = {"VERS": "1.2", "WRAP": "YES", "NULL": "10.0", "DLM": "COMMA"}

ORDERS = ["".join(p) for p in itertools.permutations(SECS)]
ORDERS.remove("WCPOXA")
ORDERS.insert(0, "WCPOXA")


def axes():
    ax = [("order", ORDERS)]
    for s in "VWCPOXA":
        ax.append(("t" + s, list(range(len(TITLES[s])))))
    for s in "VWCPX":
        ax.append(("b" + s, [0, 1, 2, 3, 4] + ([5] if s == "C" else [])))   # 5: ~C is its title line only (no curve declared)
    ax.append(("bO", [0, 1, 2, 3, 4]))
    ax.append(("terse", [False, True]))       # extras of ~P / ~X / ~W written as period-less 'NAME : value' and colon-less 'NAME.U value' lines
    ax.append(("decoy", DECOYS))
    ax.append(("rows", [2, 3]))
    ax.append(("ignore_data", [False, True]))
    ax.append(("bA", ["plain", "trailing_blank", "trailing_comment", "leading_blank"]))   # noise lines inside ~A
    ax.append(("surplus", [False, True]))     # one data column more than ~C declares
    ax.append(("wnull", [True, False]))       # ~W carries a NULL item or not
    ax.append(("dates", [False, True]))       # a text column of ISO dates (a hyphen in every data row)
    # further non-standard sections (each kept under its own title): one more directly after ~X, two more, one directly
    # before ~A, an EMPTY one directly after ~X, one whose title differs from ~X's only in case / by a suffix
    ax.append(("more_custom", [None, "after-X", "two-after-X", "before-A", "empty-after-X", "near-name-after-X"]))
    ax.append(("vers", ["2.0", "1.2"]))       # LAS 1.2: ~W lines other than STRT/STOP/STEP/NULL are laid out 'MNEM.UNIT DESCR : VALUE'
    return ax


def bounds(tier):
    return {"orders": len(ORDERS), "title_spellings": TITLES, "bodies": BODIES, "other_bodies": OBODIES,
            "decoys": DECOYS, "deviation_bound": 2 if tier == "quick" else "2 over all 720 orders + 3 over 42 orders",
            "engines": ["numpy", "normal"]}


def points(tier):
    ax = axes()
    its = [space.deviations(ax, 2)]
    if tier == "thorough":
        # A at every position combined with rotations of the others: 42 representative orders
        sub = ["WCPOXA"]
        others = "WCPOX"
        for rot in range(5):
            o = others[rot:] + others[:rot]
            for pos in range(6):
                sub.append(o[:pos] + "A" + o[pos:])
        sub.append("XOPCWA")
        sub = list(dict.fromkeys(sub))
        ax3 = [("order", sub)] + ax[1:]
        its.append(space.deviations(ax3, 3))
    # the axes that interact at the end of ~A are explored as a full product (for ~A last and ~A in the middle)
    base = {n: v[0] for n, v in ax}

    def tail_product():
        for order in ("WCPOXA", "WCPAOX", "WAXCPO"):
            for bA in ("plain", "trailing_blank", "trailing_comment", "leading_blank"):
                for dates in (False, True):
                    for surplus in (False, True):
                        for rows in (2, 3):
                            d = dict(base)
                            d.update({"order": order, "bA": bA, "dates": dates, "surplus": surplus, "rows": rows})
                            yield d

    its.append(tail_product())
    pts = []
    for pt in space.union_points(*its):
        for eng in ("numpy", "normal"):
            q = dict(pt)
            q["engine"] = eng
            pts.append(q)
    return pts


def _items_for(sec, body, decoy, wnull=True, vers="2.0"):
    """Abstract items (mnemonic, unit, value-text, descr) and trailing noise lines."""
    base = {
        "V": [("VERS", "", vers, "version"), ("WRAP", "", "NO", "wrap")],
        "W": [("NULL", "", "-999.25", "null value")] if wnull else [("KB", "M", "12.5", "kelly bushing")],
        "C": [("DEPT", "M", "", "depth"), ("C1", "U1", "11", "curve one")],
        "P": [],
        "X": [],
    }[sec]
    extra_names = {"V": ["EXT1", "EXT2"], "W": ["WELL", "FLD"], "C": [], "P": ["P1", "P2"], "X": ["Q1", "Q2"]}[sec]
    items = list(base)
    kind = BODIES[body]
    n_extra = {"one": 1, "empty": 0, "two": 2, "trailing_blank": 1, "trailing_comment": 1, "title_only": 0}[kind]
    if kind == "title_only":
        items = []
    for k in range(min(n_extra, len(extra_names))):
        # (the second extra carries a tilde inside its value)
        items.append((extra_names[k], "", ("val %s" if k == 0 else "~0.5 approx %s") % extra_names[k].lower(), "descr of %s" % extra_names[k]))
    if decoy and decoy[0] == sec:
        items.append((decoy[1], "", DECOY_VALUE[decoy[1]] if decoy[1] != "VERS" else {"2.0": "1.2", "1.2": "2.0"}[vers], "decoy"))
    noise = {"trailing_blank": [""], "trailing_comment": ["# a comment"]}.get(kind, [])
    return items, noise


def build(pt):
    decoy = pt["decoy"]
    abstract = {}
    secs = []

    def header_sec(s):
        vers = pt.get("vers", "2.0")
        items, noise = _items_for(s, pt["b" + s], decoy, pt.get("wnull", True), vers)
        abstract[s] = items
        lines = []
        if pt.get("terse") and s in "PX" and vers != "1.2":
            # terse forms: a line without a period is NAME : VALUE (no unit, no description); a line without a colon has no description
            terse_items = []
            for k, (m, u, v, d) in enumerate(items):
                if m in ("VERS", "WRAP", "NULL", "DLM"):
                    terse_items.append((m, u, v, d))
                    lines.append(lasgen.item_line(m, u, v, d))
                elif k % 2 == 0:
                    terse_items.append((m, "", v, ""))
                    lines.append("%s : %s" % (m, v))
                else:
                    terse_items.append((m, "UU", v, ""))
                    lines.append("%s.UU %s" % (m, v))
            abstract[s] = terse_items
            return [TITLES[s][pt["t" + s]]] + lines + noise
        for (m, u, v, d) in items:
            if s == "W" and vers == "1.2" and m not in ("STRT", "STOP", "STEP", "NULL"):
                lines.append(lasgen.item_line(m, u, d, v))   # LAS 1.2 ~W layout: description first, value after the colon
            else:
                lines.append(lasgen.item_line(m, u, v, d))
        return [TITLES[s][pt["t" + s]]] + lines + noise

    secs.append(header_sec("V"))
    ncurves = 2 + (1 if decoy and decoy[0] == "C" else 0)
    rows = pt["rows"]
    ncols = ncurves + (1 if pt.get("surplus") else 0)
    if BODIES[pt["bC"]] == "title_only":
        ncols = max(2, ncurves - 2) + (1 if pt.get("surplus") else 0)   # (almost) nothing is declared: the columns become unnamed curves
    matrix = [[10.0 * (i + 1) + j + 0.5 for j in range(ncols)] for i in range(rows)]
    matrix[0][1] = -999.25
    matrix[1][1] = 10.0
    extras = {}   # title (without '~') -> abstract items of the additional custom sections

    def extra_sec(title, names):
        items = [(n, "", "val %s" % n.lower(), "descr of %s" % n) for n in names]
        extras[title[1:]] = items
        return [title] + [lasgen.item_line(*it) for it in items]

    mc = pt.get("more_custom")
    xt = TITLES["X"][pt["tX"]]
    for s in pt["order"]:
        if s == "A" and mc == "before-A":
            secs.append(extra_sec("~Ytra block", ["Y1", "Y2"]))
        if s in "WCPX":
            secs.append(header_sec(s))
            if s == "X" and mc == "after-X":
                secs.append(extra_sec("~Ytra block", ["Y1", "Y2"]))
            elif s == "X" and mc == "two-after-X":
                secs.append(extra_sec("~Ytra block", ["Y1"]))
                secs.append(extra_sec("~Ztra", ["Z1", "Z2", "Q1"]))
            elif s == "X" and mc == "empty-after-X":
                secs.append(extra_sec("~Ytra block", []))
            elif s == "X" and mc == "near-name-after-X":
                secs.append(extra_sec(xt + "_2", ["Y1", "Q1"]))
        elif s == "O":
            body = OBODIES[pt["bO"]]
            abstract["O"] = "\n".join(x.strip() for x in body)
            secs.append([TITLES["O"][pt["tO"]]] + body)
        else:
            drows = ["  ".join([repr(v) for v in row] + (["2018-05-%02d" % (i + 20)] if pt.get("dates") else []))
                     for i, row in enumerate(matrix)]
            bA = pt.get("bA", "plain")
            body = {"plain": drows, "trailing_blank": drows + [""], "trailing_comment": drows + ["# end of data"],
                    "leading_blank": [""] + drows}[bA]
            secs.append([TITLES["A"][pt["tA"]]] + body)
    abstract["extras"] = extras
    text = lasgen.render(secs)
    exp = np.array(matrix)
    if pt.get("wnull", True):
        exp[0, 1] = np.nan
    return text, abstract, exp


def _scratch():
    out = os.path.join(os.path.dirname(os.path.dirname(os.path.dirname(os.path.abspath(__file__)))), "out", "c05.%d" % os.getpid())
    os.makedirs(out, exist_ok=True)
    return out


REUSE_FIRST = ("~V\nVERS. 1.2 : v\nWRAP. NO : w\nDLM. COMMA : d\n~W\nSTRT.M 1 : s\nSTOP.M 2 : s\nSTEP.M 1 : s\nNULL. 10.0 : n\n"
               "~C\nD.M : d\nG. : g\nH. : h\n~A\n1,5,7\n2,6,8\n")


def end_of_unit():
    import shutil
    shutil.rmtree(os.path.join(os.path.dirname(os.path.dirname(os.path.dirname(os.path.abspath(__file__)))), "out", "c05.%d" % os.getpid()),
                  ignore_errors=True)


def check_point(pt):
    from ..core import inputs as _inputs
    _inputs.process_prelude()   # explored in a process that has already read many other files (see core/inputs.py)
    text, abstract, exp = build(pt)
    nontriv = pt["order"] != "WCPOXA" or any(pt["t" + s] != 0 for s in "VWCPOXA") or pt["decoy"] is not None
    size = len(text) + 1000 * pt.get("_dev", 0)

    def V(clause, expected, observed):
        return {"clause": clause, "sig": classify(pt, clause), "witness": {"point": pt, "text": text},
                "expected": expected, "observed": observed, "size": size,
                "repro": "import lasio; las=lasio.read(%r, engine=%r); print(las.sections.keys()); print(las.data)" % (text, pt["engine"])}

    try:
        las = lasio.read(text, engine=pt["engine"], ignore_data=pt.get("ignore_data", False))
    except Exception as e:
        return [V("read-raises", "a successful read", "%s: %s" % (type(e).__name__, str(e)[:160]))], nontriv, "raise", {}, 1
    vio = []
    if pt["engine"] == "normal":
        # the same text read into a LASFile object that has read ANOTHER file before (LASFile.read called twice): the
        # other file's steering items (DLM COMMA, NULL 10.0) say nothing about this text
        try:
            import io
            obj = lasio.LASFile()
            obj.read(io.StringIO(REUSE_FIRST), engine=pt["engine"])
            obj.read(io.StringIO(text), engine=pt["engine"], ignore_data=pt.get("ignore_data", False))
            a = canon.las_tag(las, "strict")
            b = canon.las_tag(obj, "strict")
            sa, sb = dict(a["sections"]), dict(b["sections"])
            diff = [k for k in sa if sa[k] != sb.get(k)]
            if diff or a.get("curves") != b.get("curves"):
                vio.append(V("second-read-on-same-object-differs", "sections and data of this text as in a fresh read",
                             {"sections": diff, "data": "differs" if a.get("curves") != b.get("curves") else "equal"}))
        except Exception as e:
            vio.append(V("second-read-on-same-object-raises", "reads like a fresh object", "%s: %s" % (type(e).__name__, str(e)[:160])))
    if pt["engine"] == "numpy":
        # the same content from a FILE whose path was read just before with the sections in another order (same bytes
        # count): what was learnt about that file's layout says nothing about this one
        try:
            path = os.path.join(_scratch(), "c05.las")
            other = dict(pt, order=pt["order"][1:] + pt["order"][:1])
            with open(path, "w", encoding="utf-8", newline="") as f:
                f.write(build(other)[0])
            lasio.read(path, engine=pt["engine"], ignore_data=pt.get("ignore_data", False), encoding="utf-8")
            with open(path, "w", encoding="utf-8", newline="") as f:
                f.write(text)
            lasp = lasio.read(path, engine=pt["engine"], ignore_data=pt.get("ignore_data", False), encoding="utf-8")
            a = canon.las_tag(las, "strict")
            b = canon.las_tag(lasp, "strict")
            if a != b:
                vio.append(V("path-read-differs-from-string-read", "same result from the file as from the string", canon.diff_tags(a, b)))
        except Exception as e:
            vio.append(V("path-read-raises", "the file reads like the string", "%s: %s" % (type(e).__name__, str(e)[:160])))
        finally:
            pass
    xkey = TITLES["X"][pt["tX"]][1:]
    want_keys = {"Version", "Well", "Curves", "Parameter", "Other", xkey} | set(abstract["extras"])
    got_keys = set(las.sections.keys())
    if got_keys != want_keys:
        vio.append(V("section-keys", sorted(want_keys), sorted(got_keys)))
    for s, key in (("V", "Version"), ("W", "Well"), ("C", "Curves"), ("P", "Parameter"), ("X", xkey)):
        sec = las.sections.get(key)
        if sec is None or isinstance(sec, str):
            if not vio:
                vio.append(V("section-missing", key, repr(sec)[:100]))
            continue
        got = [(i.original_mnemonic, i.unit, canon.value_tag(i.value, "numeric"), i.descr) for i in sec]
        want = [(m, u, canon.value_tag(v, "numeric"), d) for (m, u, v, d) in abstract[s]]
        if s == "C" and not pt.get("ignore_data"):
            # undeclared data columns (the surplus column, the date column) become unnamed curves after the declared ones
            extra = exp.shape[1] + (1 if pt.get("dates") else 0) - len(want)
            want = want + [("", "", ("str", ""), "")] * extra
        if got != want:
            vio.append(V("items-of-" + key if s != "X" else "items-of-custom", want, got))
    for key, items in abstract["extras"].items():
        sec = las.sections.get(key)
        if sec is None or isinstance(sec, str):
            if not vio:
                vio.append(V("section-missing", key, repr(sec)[:100]))
            continue
        got = [(i.original_mnemonic, i.unit, canon.value_tag(i.value, "numeric"), i.descr) for i in sec]
        want = [(m, u, canon.value_tag(v, "numeric"), d) for (m, u, v, d) in items]
        if got != want:
            vio.append(V("items-of-custom", want, got))
    if las.sections.get("Other") != abstract["O"]:
        vio.append(V("other-text", abstract["O"], las.sections.get("Other")))
    if pt.get("ignore_data"):
        return vio, nontriv, "ok", {}, 1
    try:
        cols = [np.asarray(c.data) for c in las.curves]
        if pt.get("dates"):
            dcol = [str(x) for x in cols[-1].tolist()] if cols else None
            if dcol != ["2018-05-%02d" % (i + 20) for i in range(exp.shape[0])]:
                vio.append(V("date-column", ["2018-05-%02d" % (i + 20) for i in range(exp.shape[0])], dcol))
            cols = cols[:-1]
        data = np.vstack([c.astype(float) for c in cols]).T if cols else np.zeros((0, 0))
        ok = data.shape == exp.shape and np.array_equal(np.isnan(data), np.isnan(exp)) and np.array_equal(
            np.nan_to_num(data.astype(float)), np.nan_to_num(exp))
    except Exception as e:
        data = repr(e)
        ok = False
    if not ok:
        vio.append(V("data", exp.tolist(), data.tolist() if hasattr(data, "tolist") else data))
    return vio, nontriv, "ok", {}, 1


def classify(pt, clause):
    feats = []
    lower = [s for s in "VWCPOXA" if pt["t" + s] in (1, 3)]
    if lower:
        feats.append("lower-title:" + "".join(lower))
    if pt["decoy"]:
        feats.append("decoy:%s-in-%s" % (pt["decoy"][1], pt["decoy"][0]))
    if pt["order"].index("A") != 5:
        feats.append("inner-A")
    if pt.get("ignore_data"):
        feats.append("ignore_data")
    if pt["tX"] >= 5:
        feats.append("custom-title-with-underscore")
    for k in ("bA", "surplus", "dates"):
        if pt.get(k) not in (None, False, "plain"):
            feats.append("%s=%s" % (k, pt[k]))
    if pt.get("wnull") is False:
        feats.append("no-well-null")
    if pt.get("vers", "2.0") != "2.0":
        feats.append("vers=" + pt["vers"])
    if pt.get("more_custom"):
        feats.append("more-custom=" + pt["more_custom"])
    if BODIES[pt["bC"]] == "title_only":
        feats.append("title-only-C")
    return "+".join(feats) or "plain"


e1.install(globals(), unit_size=400, sample_of=lambda pt: {"point": pt, "text": build(pt)[0]})
