"""C09 - reading is invariant under presentation-only changes of the text.
Metamorphic oracle canon(read(T(x))) == canon(read(x)) with T enumerated at
every applicable site of every base file (generated family + example corpus)."""
import glob
import itertools
import os

import numpy as np

import lasio

from ..core import canon, e1, lasgen, space

PROPERTY = "C09"
LEVEL = "exploration"
RULE = (
    "base files: generated family (declared d vs columns c incl. d != c, rows incl. 19..22 around the sniffing window, "
    "WRAP NO/YES, DLM absent/SPACE/TAB/COMMA, full header) and every example file of the repository that reads; "
    "transformations enumerated at every applicable site: T1 blank line / T2 '#' comment line (plain, indented, carrying hyphens and dates) inserted at each line "
    "boundary of a header-items or data section, blocks of 20 / 21 / 22 / 45 blank or comment lines at the sites next to data rows, T3 each inter-field whitespace run of data rows and each of the six "
    "pad positions of header lines replaced by {1 blank, 3 blanks, tab}, and every data row of every whitespace-delimited file (corpus included) re-spaced with tab / 1 blank / 3 blanks / mixed, T4 trailing blanks on each line / leading "
    "blanks on each non-title line, T5 CRLF, T6 no final newline, T7 every re-cut of wrapped depth steps and every uniform re-flow of the whole token stream (1 value per line .. all values on one line), T8 "
    "re-delimiting with SPACE/TAB/COMMA x padding, plus each kind at all sites at once; thorough adds pairs of "
    "single-site text transformations and per-site transformations of the corpus; both engines; a case is "
    "non-trivial when the transformed text differs from its base and the base reads"
)
ASSUMPTIONS = [
    "~O bodies are free text: no noise is inserted there; title lines only get trailing padding",
    "T3 never touches whitespace inside a field; p2 (unit/value gap) is never emptied",
    "when T8 adds or changes the DLM item, that item itself is excluded from the comparison",
    "a base file whose own read raises is skipped (counted), a transformed text that raises is a violation",
]

EX = None


def examples_dir():
    return os.path.join(os.path.realpath(os.environ.get("VERIF_REPO", "/repo")), "tests", "examples")


# ------------------------------------------------------------------ generated family
def gen_family(tier):
    shapes = [(1, 1), (2, 2), (3, 3), (4, 4), (2, 3), (3, 2), (0, 2), (3, 1)]
    rows = [1, 2, 3, 21] if tier == "quick" else [1, 2, 3, 4, 19, 20, 21, 22, 45]
    fam = []
    for (d, c) in shapes:
        for r in rows:
            for wrap in ("NO", "YES"):
                if wrap == "YES" and d != c:
                    continue
                for dlm in (None, "SPACE", "TAB", "COMMA"):
                    fam.append({"d": d, "c": c, "r": r, "wrap": wrap, "dlm": dlm})
    # a text column whose cells hold blanks (legitimate when the delimiter is TAB or COMMA)
    for (d, c) in ((3, 3), (4, 4)):
        for r in (2, 3):
            for wrap in ("NO", "YES"):
                for dlm in ("TAB", "COMMA"):
                    fam.append({"d": d, "c": c, "r": r, "wrap": wrap, "dlm": dlm, "textcol": True})
    return fam


def gen_abstract(p):
    d, c, r = p["d"], p["c"], p["r"]
    V = [("VERS", "", "2.0", "version"), ("WRAP", "", p["wrap"], "wrap mode")]
    if p["dlm"]:
        V.append(("DLM", "", p["dlm"], "delimiter"))
    W = [("STRT", "M", "101.5", "start"), ("STOP", "M", "%d01.5" % r, "stop"), ("STEP", "M", "100", "step"),
         ("NULL", "", "-999.25", "null value"), ("WELL", "", "my well 7", "the well name"), ("UWI", "", "0012345", "id")]
    C = lasgen.std_curves(d)
    P = [("P1", "U", "3.5", "a parameter"), ("P2", "", "text value", "another one")]
    secs = {"V": V, "W": W, "C": C, "P": P}
    mut = p.get("mut")
    if mut:
        kind, sec, idx = mut[0], mut[1], mut[2]
        items = secs[sec]
        if idx < len(items):
            mn, un, va, de = items[idx]
            if kind == "dup":
                items.insert(idx + 1, (mn, un, va, de))
            elif kind == "dup_end":
                items.append((mn, un, va, de))
            elif kind == "blank":
                items[idx] = ("", un.replace(".", ""), va.replace(".", ""), de.replace(".", ""))
            elif kind == "unit":
                items[idx] = (mn, mut[3], va, de)
            elif kind == "empty":
                items[idx] = (mn, un, "", de)
            elif kind == "long_value":
                items[idx] = (mn, un, (va + " tool string stuck at the shoe and more words " * 3).strip() if mut[1] == "W" else va + " " + "v" * 100, de)
            elif kind == "long_descr":
                items[idx] = (mn, un, va, de + " " + "d" * 120)
            elif kind == "long_mnemonic":
                items[idx] = (mn + "LONGLONGLONG", un, va, de)
            elif kind == "case":
                items[idx] = (mn.lower(), un, va, de)
            elif kind == "empty_long_unit":
                items[idx] = (mn, "KILOGRAM/METRE3", "", de)
            elif kind == "numunit_empty":
                items[idx] = (mn, "12345678901234", "", de)
        if kind == "dup_extra":
            secs[sec].append(("PROD", "", "ACME LOGGER", "producer"))
            secs[sec].append(("PROD", "", "ACME LOGGER", "producer"))
    cells = []
    for i in range(r):
        row = []
        for j in range(c):
            v = "%d.5" % (100 * (i + 1) + (j + 1))
            if (i, j) == (0, 1):
                v = "-999.25"
            if i == 1 and j == c - 1 and j > 0:
                v = "-" + v
            if p.get("textcol") and j == c - 1:
                v = ["SANDY SHALE", "LIME STONE 2", "CLAY"][i % 3]
            row.append(v)
        cells.append(row)
    pads = {}
    for key, items in secs.items():
        for idx, it in enumerate(items):
            if it[1].startswith("."):
                # 'DEPT..1IN' would be the double-dot form of ~Curves: real files write 'DEPT  ..1IN'
                pads[(key, idx)] = ("", "  ", " ", " ", " ", "")
    return {"V": V, "W": W, "C": C, "P": P, "O": ["some free text", "second line 1 2 3"], "cells": cells, "_pads": pads}


BASE_PADS = ("", "", " ", " ", " ", "")
PAD_ALTS = (" ", "   ", "\t")
DATA_ALTS = (" ", "   ", "\t")


def default_cut(c, wrap):
    if wrap != "YES" or c == 1:
        return (c,)
    return (1, c - 1)


def render_gen(p, lay=None):
    """lay: dict with optional keys pads {(sec, idx): pads}, seps {(row, gap): sep}, cut (composition), dlm, dlm_pad."""
    lay = lay or {}
    a = gen_abstract(p)
    dlm = lay.get("dlm", p["dlm"])
    if dlm != p["dlm"]:
        V = [x for x in a["V"] if x[0] != "DLM"]
        if dlm:
            V.append(("DLM", "", dlm, "delimiter"))
        a["V"] = V
    secs = []
    for key, title in (("V", "~Version"), ("W", "~Well"), ("C", "~Curve"), ("P", "~Parameter")):
        lines = [title]
        for idx, it in enumerate(a[key]):
            lines.append(lasgen.item_line(*it, pads=lay.get("pads", {}).get((key, idx), a["_pads"].get((key, idx), BASE_PADS))))
        secs.append(lines)
    secs.append(["~Other"] + a["O"])
    base_sep = {None: "  ", "SPACE": "  ", "TAB": "\t", "COMMA": ","}[dlm]
    padk = lay.get("dlm_pad", "none")
    if dlm in ("TAB", "COMMA") and padk != "none":
        base_sep = base_sep + " " if padk == "after" else " " + base_sep + " "
    cut = lay.get("cut", default_cut(p["c"], p["wrap"]))
    lines = ["~ASCII"]
    if lay.get("flow"):
        toks = [t for row in a["cells"] for t in row]
        w = lay["flow"]
        for k in range(0, len(toks), w):
            lines.append(base_sep.join(toks[k:k + w]))
        secs.append(lines)
        return lasgen.render(secs)
    for i, row in enumerate(a["cells"]):
        k = 0
        gap = 0
        for size in cut:
            toks = row[k:k + size]
            s = toks[0]
            for t in toks[1:]:
                s += lay.get("seps", {}).get((i, gap), base_sep) + t
                gap += 1
            gap += 1  # the gap replaced by the line break
            lines.append(s)
            k += size
    secs.append(lines)
    return lasgen.render(secs)


def gen_layout_variants(p, tier):
    """(kind, layout) pairs: T3 header pads / data runs one at a time and all at once, T7, T8."""
    a = gen_abstract(p)
    out = []
    # T3 header pads
    allpads = {}
    for key in "VWCP":
        for idx, it in enumerate(a[key]):
            for pos in range(6):
                for alt in PAD_ALTS:
                    pads = list(BASE_PADS)
                    if pads[pos] == alt:
                        continue
                    pads[pos] = alt
                    out.append(("T3-header-pad", {"pads": {(key, idx): tuple(pads)}}))
            allpads[(key, idx)] = (" ", " ", "   ", "\t", "  ", " ")
    out.append(("T3-header-pad-all", {"pads": allpads}))
    whitespace_dlm = p["dlm"] in (None, "SPACE")
    cut = default_cut(p["c"], p["wrap"])
    if whitespace_dlm:
        gaps_in_line = []
        g = 0
        for size in cut:
            for _ in range(size - 1):
                gaps_in_line.append(g)
                g += 1
            g += 1
        rows_for_single = range(p["r"]) if p["r"] <= 4 else (0, 1, p["r"] - 1)
        for i in rows_for_single:
            for gpos in gaps_in_line:
                for alt in DATA_ALTS:
                    out.append(("T3-data-run", {"seps": {(i, gpos): alt}}))
        for alt in DATA_ALTS:
            out.append(("T3-data-run-all", {"seps": {(i, gpos): alt for i in range(p["r"]) for gpos in gaps_in_line}}))
    # T7 re-wrap
    if p["wrap"] == "YES":
        for comp in space.compositions(p["c"]):
            if comp != cut:
                out.append(("T7-rewrap", {"cut": comp}))
    # T7 flow: the token stream of the whole data section re-cut every w tokens (depth steps may share a line)
    if p["wrap"] == "YES":
        total = p["r"] * p["c"]
        for w in range(1, total + 1):
            if total > 24 and w > 12 and w not in (total, total // 2, p["c"] * 2, p["c"] * 3, p["c"] * 5):
                continue
            out.append(("T7-flow", {"flow": w}))
    # T8 re-delimit (unwrapped and wrapped)
    for dlm in ("SPACE", "TAB", "COMMA"):
        for padk in ("none", "after", "around"):
            if dlm == "SPACE" and padk != "none":
                continue
            if dlm == "SPACE" and p.get("textcol"):
                continue  # text cells hold blanks: a blank delimiter would not be a presentation-only change
            if dlm == p["dlm"] and padk == "none":
                continue
            out.append(("T8-redelimit", {"dlm": dlm, "dlm_pad": padk}))
    return out


# ------------------------------------------------------------------ text-level transformations
def classify_lines(lines):
    """Section kind of every line: 'pre', 'items', 'other', 'data' (titles get the kind of their section)."""
    kinds = []
    cur = "pre"
    for ln in lines:
        s = ln.strip()
        if s.startswith("~"):
            u = s.upper()
            if u[:2] == "~A" or "~LOG_DATA" in u or "_DATA" in u:
                cur = "data"
            elif u[:2] == "~O":
                cur = "other"
            else:
                cur = "items"
            kinds.append((cur, True))
        else:
            kinds.append((cur, False))
    return kinds


def insertion_sites(lines, kinds):
    """k = insert before lines[k]; allowed when the line above belongs to a header-items or data section."""
    return [k for k in range(1, len(lines) + 1) if kinds[k - 1][0] in ("items", "data")]


BLOCK_SITE_LIMIT = 10 ** 9


def text_variants_single(lines, kinds, max_sites=None):
    out = []
    sites = insertion_sites(lines, kinds)
    if max_sites and len(sites) > max_sites:
        sites = sites[: max_sites // 2] + sites[-(max_sites // 2):]
    for k in sites:
        out.append(("T1-blank", ("ins", k, "")))
        out.append(("T2-comment", ("ins", k, "# inserted comment")))
        out.append(("T2-comment-indented", ("ins", k, "   # indented comment")))
        if kinds[k - 1][0] == "data" or (k < len(lines) and kinds[k][0] == "data"):
            out.append(("T2-comment-hyphen", ("ins", k, "# re-logged 2020-01-02 - run 1-2")))
        if kinds[k - 1][0] == "data" or (k < len(lines) and kinds[k][0] == "data"):
            out.append(("T1-blank-ws", ("ins", k, "   ")))
            # blocks of blank / comment lines longer than any look-ahead window of the reader (20, 21, 22, 45 lines)
            if k <= BLOCK_SITE_LIMIT or k >= len(lines) - 2 or kinds[k - 1][1]:
                for n in (20, 21, 22, 45):
                    out.append(("T2-comment-block", ("ins", k, "\n".join(["# block comment %d" % q for q in range(n)]))))
                    out.append(("T1-blank-block", ("ins", k, "\n".join([""] * n))))
    idxs = [i for i in range(len(lines)) if kinds[i][0] in ("items", "data") and lines[i].strip()]
    if max_sites and len(idxs) > max_sites:
        idxs = idxs[: max_sites // 2] + idxs[-(max_sites // 2):]
    for i in idxs:
        out.append(("T4-trailing", ("trail", i, "  ")))
        if not kinds[i][1]:
            out.append(("T4-leading", ("lead", i, "  ")))
    # section title lines indented with a blank, blanks or a tab
    for i in range(len(lines)):
        if kinds[i][1] and lines[i].strip():
            for pad, nm in ((" ", "blank"), ("   ", "blanks"), ("\t", "tab")):
                out.append(("T4-leading-title-" + nm, ("lead", i, pad)))
    return out


def apply_text_ops(lines, ops, eol="\n", final_nl=True):
    """ops: list of ('ins', k, s) / ('trail', i, s) / ('lead', i, s); indices refer to the original lines."""
    new = list(lines)
    ins = {}
    for op in ops:
        if op[0] == "trail":
            new[op[1]] = new[op[1]] + op[2]
        elif op[0] == "lead":
            new[op[1]] = op[2] + new[op[1]]
        elif op[0] == "ins":
            ins.setdefault(op[1], []).append(op[2])
    out = []
    for i, ln in enumerate(new):
        out.extend(ins.get(i, []))
        out.append(ln)
    out.extend(ins.get(len(new), []))
    text = eol.join(out)
    if final_nl:
        text += eol
    return text


def whitespace_delimited(lines):
    """True unless the file declares DLM COMMA/TAB or its data lines carry quotes (quoted text may hold blanks)."""
    import re
    for ln, (kind, is_title) in zip(lines, classify_lines(lines)):
        if kind == "items" and re.match(r"^\s*DLM\s*\.\s*(COMMA|TAB)", ln, re.I):
            return False
        if kind == "data" and not is_title and ('"' in ln or "'" in ln):
            return False
    return True


def respace_data(lines, kinds, sep):
    """T3 on any whitespace-delimited file: every inner whitespace run of every data row becomes `sep`."""
    import re
    out = []
    in_a = False
    for ln, (kind, is_title) in zip(lines, kinds):
        if is_title:
            # only genuine ~A sections: LAS 3.0 '~..._Data' sections are parsed as header items when an ~A exists
            in_a = ln.strip().upper().startswith("~A")
        if kind == "data" and in_a and not is_title and ln.strip() and not ln.strip().startswith("#"):
            lead = ln[:len(ln) - len(ln.lstrip())]
            out.append(lead + re.sub(r"[ \t]+", sep, ln.strip()))
        else:
            out.append(ln)
    return out


def whole_file_variants(lines, kinds):
    sites = insertion_sites(lines, kinds)
    data_sites = [k for k in sites if kinds[k - 1][0] == "data" and not kinds[k - 1][1]]
    idxs = [i for i in range(len(lines)) if kinds[i][0] in ("items", "data") and lines[i].strip()]
    out = [
        ("T5-crlf", {"eol": "\r\n"}),
        ("T6-no-final-newline", {"final_nl": False}),
        ("T5+T6", {"eol": "\r\n", "final_nl": False}),
        ("T1-blank-all", {"ops": [("ins", k, "") for k in sites]}),
        ("T2-comment-all", {"ops": [("ins", k, "#c") for k in sites]}),
        ("T2-comment-indented-all", {"ops": [("ins", k, "  \t# c") for k in sites]}),
        ("T2-comment-hyphen-all", {"ops": [("ins", k, "# 2020-01-02 - run 1-2") for k in sites]}),
        ("T4-trailing-all", {"ops": [("trail", i, " \t") for i in idxs]}),
        ("T4-leading-all", {"ops": [("lead", i, "   ") for i in idxs if not kinds[i][1]]}),
        ("T1-blank-at-end", {"ops": [("ins", len(lines), ""), ("ins", len(lines), "")]} if kinds[-1][0] in ("items", "data") else {"eol": "\n"}),
        # CRLF line ends combined with blank / comment lines (a blank line is then '\r\n')
        ("T5+T1-blank-all", {"eol": "\r\n", "ops": [("ins", k, "") for k in sites]}),
        ("T5+T2-comment-all", {"eol": "\r\n", "ops": [("ins", k, "# c") for k in sites]}),
    ] + [("T5+T1-blank-in-data-%d" % n, {"eol": "\r\n", "ops": [("ins", k, "") for k in data_sites[:n]]}) for n in (1, 2, 3) if len(data_sites) >= n
    ] + [("T5+T1-blank-at-data-end", {"eol": "\r\n", "ops": [("ins", k, "") for k in data_sites[-1:]]})] * (1 if data_sites else 0) + [
    ]
    return out


# ------------------------------------------------------------------ bases
def load_corpus():
    d = examples_dir()
    out = []
    for path in sorted(glob.glob(os.path.join(d, "**", "*"), recursive=True)):
        if not path.lower().endswith(".las") or not os.path.isfile(path):
            continue
        raw = open(path, "rb").read()
        if not raw or b"\x00" in raw:
            continue
        try:
            text = raw.decode("utf-8-sig")
        except UnicodeDecodeError:
            text = raw.decode("latin-1")
        text = text.replace("\r\n", "\n").replace("\r", "\n")
        if text.count("\n") < 2:
            continue
        out.append((os.path.relpath(path, d), text))
    return out


def points(tier):
    """A point is one base plus the list of its variants (kept per base so the base is read once)."""
    pts = []
    for p in gen_family(tier):
        pts.append({"base": ["gen", p], "part": "all"})
    if tier == "thorough":
        for p in gen_family("quick"):
            if p["r"] <= 2 and p["c"] <= 3 and p["dlm"] in (None, "COMMA"):
                pts.append({"base": ["gen", p], "part": "pairs"})
    for name, text in load_corpus():
        n = text.count("\n")
        if n > 3000 and tier == "quick":
            continue
        pts.append({"base": ["corpus", name], "part": "whole"})
        if tier == "thorough" and n <= 300:
            pts.append({"base": ["corpus", name], "part": "sites"})
    return pts


def bounds(tier):
    return {"generated_bases": len(gen_family(tier)), "corpus_files": len(load_corpus()),
            "engines": ["default(numpy)", "normal"],
            "pairs": tier == "thorough", "corpus_per_site": tier == "thorough"}


_CORPUS = {}


def base_text(base):
    if base[0] == "gen":
        return render_gen(base[1])
    if not _CORPUS:
        _CORPUS.update(dict(load_corpus()))
    return _CORPUS[base[1]]


def read_tag(text, engine, skip_dlm=False):
    try:
        las = lasio.read(text, engine=engine)
    except Exception as e:
        return ("raise", type(e).__name__ + ": " + str(e)[:150])
    skip = {("Version", "DLM")} if skip_dlm else ()
    return ("ok", canon.las_tag(las, "strict", skip_items=skip))


def variants_for(pt):
    """Yield (kind, transformed_text, skip_dlm, descr)."""
    base = pt["base"]
    text = base_text(base)
    lines = text.split("\n")
    if lines and lines[-1] == "":
        lines = lines[:-1]
    kinds = classify_lines(lines)
    part = pt["part"]
    if part in ("all", "whole") and whitespace_delimited(lines):
        for sep, nm in (("\t", "tab"), ("   ", "3blanks"), (" ", "1blank"), (" \t ", "mixed")):
            yield "T3-data-respace-" + nm, "\n".join(respace_data(lines, kinds, sep)) + "\n", False, {"sep": sep}
    if part in ("all", "whole"):
        for kind, spec in whole_file_variants(lines, kinds):
            t = apply_text_ops(lines, spec.get("ops", []), spec.get("eol", "\n"), spec.get("final_nl", True))
            yield kind, t, False, spec if "ops" not in spec else {"ops": "all sites"}
    if part in ("all", "sites"):
        for kind, op in text_variants_single(lines, kinds, max_sites=None if part == "all" else 400):
            yield kind, apply_text_ops(lines, [op]), False, {"op": list(op)}
    if part == "all":
        p = base[1]
        for kind, lay in gen_layout_variants(p, None):
            yield kind, render_gen(p, lay), kind == "T8-redelimit", {"layout": _lay_json(lay)}
    if part == "pairs":
        singles = text_variants_single(lines, kinds)
        for (k1, o1), (k2, o2) in itertools.combinations(singles, 2):
            yield k1 + "&" + k2, apply_text_ops(lines, [o1, o2]), False, {"ops": [list(o1), list(o2)]}
        p = base[1]
        lays = gen_layout_variants(p, None)
        for (k1, l1) in lays:
            if k1 not in ("T8-redelimit", "T7-rewrap"):
                continue
            t1 = render_gen(p, l1)
            l1lines = t1.split("\n")[:-1]
            kk = classify_lines(l1lines)
            for k2, o2 in text_variants_single(l1lines, kk):
                yield k1 + "&" + k2, apply_text_ops(l1lines, [o2]), k1 == "T8-redelimit", {"layout": _lay_json(l1), "op": list(o2)}


def _lay_json(lay):
    out = {}
    for k, v in lay.items():
        if isinstance(v, dict):
            out[k] = [[list(kk) if isinstance(kk, tuple) else kk, vv] for kk, vv in v.items()][:6]
        else:
            out[k] = v
    return out


def check_point(pt, only=None):
    from ..core import inputs as _inputs
    _inputs.process_prelude()   # explored in a process that has already read many other files (see core/inputs.py)
    base = pt["base"]
    text = base_text(base)
    vio = []
    counters = {}
    evals = 0
    nontriv = set()
    base_tags = {}
    for eng in ("numpy", "normal"):
        for skip in (False, True):
            base_tags[(eng, skip)] = None
    outcome = "ok"
    for eng in ("numpy", "normal"):
        b = read_tag(text, eng)
        evals += 1
        if b[0] != "ok":
            counters["base_raises"] = counters.get("base_raises", 0) + 1
            outcome = "base-raises"
            continue
        base_tags[(eng, False)] = b
    if all(v is None for v in base_tags.values()):
        return [], None, outcome, counters, evals
    n = 0
    for kind, t, skip_dlm, descr in variants_for(pt):
        n += 1
        if only is not None and n != only:
            continue
        if t == text:
            continue
        for eng in ("numpy", "normal"):
            if base_tags[(eng, False)] is None:
                continue
            if skip_dlm:
                if base_tags[(eng, True)] is None:
                    base_tags[(eng, True)] = read_tag(text, eng, True)
                b = base_tags[(eng, True)]
            else:
                b = base_tags[(eng, False)]
            got = read_tag(t, eng, skip_dlm)
            evals += 1
            counters[kind.split("&")[0]] = counters.get(kind.split("&")[0], 0) + 1
            if got != b:
                if got[0] != "ok":
                    clause, obs = "transformed-raises", got[1]
                else:
                    clause, obs = "result-differs", canon.diff_tags(b[1], got[1])
                sig = "%s:%s" % (kind, "gen" if base[0] == "gen" else "corpus")
                if (clause == "result-differs" and base[0] == "gen" and base[1].get("textcol") and kind.startswith("T8-redelimit")
                        and isinstance(descr, dict) and any(lay[0] == "dlm_pad" and lay[1] != "none" for lay in
                                                            ([[k, v] for k, v in descr.get("layout", {}).items()]))
                        and "curves" in str(obs) and "sections" not in str(obs)):
                    sig = "T8-padding-kept-in-text-cell"
                vio.append({
                    "clause": clause,
                    "sig": sig,
                    "witness": {"point": pt, "variant_no": n, "kind": kind, "engine": eng, "descr": descr,
                                "base_text": text if len(text) < 6000 else text[:6000] + "...",
                                "text": t if len(t) < 6000 else t[:6000] + "..."},
                    "expected": "same canonical content as the base file",
                    "observed": obs,
                    "size": len(t) + (0 if base[0] == "gen" else 100000),
                    "repro": "import lasio; b=%r; t=%r; print(lasio.read(b,engine=%r).data); print(lasio.read(t,engine=%r).data)"
                             % (text[:3000], t[:3000], eng, eng),
                })
        nontriv.add(n)
    # distinct non-trivial = transformed texts differing from their base
    return e1.compress(vio), ("%r" % (pt,), len(nontriv)), outcome, counters, evals


def replay(witness):
    vio, _, _, _, _ = check_point(witness["point"], only=witness.get("variant_no"))
    return vio


# custom unit runner: non-trivial counts are per-point numbers of variants
def units(tier, seed):
    _PTS[tier] = points(tier)
    return [{"tier": tier, "range": [i, i + 1]} for i in range(len(_PTS[tier]))]


_PTS = {}


def run_unit(unit):
    tier = unit["tier"]
    if tier not in _PTS:
        _PTS[tier] = points(tier)
    res = {"evals": 0, "nontrivial": 0, "outcomes": {}, "violations": [], "samples": [], "extra": {}}
    for pt in _PTS[tier][unit["range"][0]:unit["range"][1]]:
        vio, nt, oc, counters, evals = check_point(pt)
        res["evals"] += evals
        if nt:
            res["nontrivial"] += nt[1]
        res["outcomes"][oc] = res["outcomes"].get(oc, 0) + 1
        for k, v in counters.items():
            res["extra"][k] = res["extra"].get(k, 0) + v
        res["violations"].extend(vio)
        res["samples"].append({"base": pt["base"], "part": pt["part"]})
    res["violations"] = e1.compress(res["violations"])
    return res
