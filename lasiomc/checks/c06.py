"""C06 - exactly the NULL-valued samples of non-index curves become NaN.
E1: full product of NULL value x NULL spellings x placement of NULL / near-NULL
/ ordinary cells x engine x null_policy x wrap x text column; then write with
defaults and re-read."""
import io
import itertools

import numpy as np

import lasio

from ..core import e1, lasgen

PROPERTY = "C06"
LEVEL = "exploration"
RULE = (
    "six cells (2x3 or 3x2 grid, index column included) each independently one of {NULL spelled as in the header, "
    "NULL spelled differently, NULL +/- a small printable difference, ordinary}: all 4^6 placements; NULL value in "
    "{-999.25, 0, 1e30, -9999, 999, -0.5, -99999.25, 2147483647} with 3 header spellings; engine {numpy, normal}; null_policy {strict, none}; "
    "WRAP {NO, YES}; optional text column; declared curves = all / one fewer than the data columns / none; use_normal_engine_for_wrapped on/off; every read result is also written with defaults and re-read, then written with flagged / per-column numeric formats and re-read with null_policy='none' (NaN cells must hold the NULL value), then edited in place (every non-index cell toggled between NaN and a value), written and re-read again; a literal NaN token in the file next to NULL-equal samples; reads with mnemonic_case lower / preserve; quick = full "
    "product placement x 3 NULL values x policy x engine plus each secondary axis one at a time against all "
    "placements, thorough = full product of all axes; non-trivial = at least one cell is NULL-equal or near-NULL"
)
ASSUMPTIONS = [
    "NULL only in ~Well (a NULL elsewhere is C05's subject); NaN never in the index",
    "near-NULL cells differ from NULL by more than the default %.5f write precision",
    "text cells contain no blanks",
]

NULLS = [
    # value, header spellings, data spellings (plain, alternative), near spellings, ordinary
    (-999.25, ["-999.25", "-999.2500", "-9.9925E2"], ["-999.25", "-999.250"], ["-999.2501", "-999.24"]),
    (0.0, ["0", "0.000", "0e0"], ["0", "0.00"], ["0.0001", "-0.001"]),
    (1e30, ["1e30", "1.0E+30", "1E30"], ["1e30", "1.00e+30"], ["1.0000001e30", "9.99999e29"]),
    (-9999.0, ["-9999", "-9999.00", "-9.999e3"], ["-9999", "-9999.0"], ["-9999.01", "-9998"]),
    (999.0, ["999", "999.0", "9.99E2"], ["999", "999.000"], ["999.001", "998.9"]),
    (-0.5, ["-0.5", "-0.50", "-5e-1"], ["-0.5", "-0.500"], ["-0.5001", "-0.49"]),
    (-99999.25, ["-99999.25", "-99999.2500", "-9.999925E4"], ["-99999.25", "-99999.250"], ["-99999.2", "-99999.3"]),
    (2147483647.0, ["2147483647", "2147483647.0", "2.147483647e9"], ["2147483647", "2147483647.00"], ["2147483648", "2147480000"]),
]
QUICK_NULLS = [0, 1, 6]
FMT_VARIANTS = [{"fmt": "%+.3f"}, {"fmt": "%012.4f"}, {"column_fmt": {1: "%+.2f", 2: "% .3f"}}, {"fmt": "%-12.3f"}, {"fmt": "%.3e"}]
ORD = ["1.5", "12", "7.25", "3", "44.5", "6"]
KINDS = "NMno"  # N: null plain, M: null other spelling, n: near, o: ordinary
PLACEMENTS = ["".join(p) for p in itertools.product(KINDS, repeat=6)]


def bounds(tier):
    return {"null_values": [NULLS[i][0] for i in (QUICK_NULLS if tier == "quick" else range(len(NULLS)))], "placements": len(PLACEMENTS),
            "header_spellings": 3, "engines": ["numpy", "normal"], "null_policy": ["strict", "none"],
            "wrap": ["NO", "YES"], "text_column": [False, True], "shapes": ["2x3", "3x2"],
            "product": "full" if tier == "thorough" else "placement x nullv(3) x policy x engine, secondary axes one at a time"}


def points(tier):
    pts = []
    if tier == "thorough":
        for nv in range(len(NULLS)):
            for hs in range(3):
                for shape in ("2x3", "3x2"):
                    for wrap in ("NO", "YES"):
                        for text in (False, True):
                            for pol in ("strict", "none"):
                                for eng in ("numpy", "normal"):
                                    for pl in PLACEMENTS:
                                        pts.append([nv, hs, shape, wrap, text, pol, eng, pl])
        # (the thorough tier continues with the secondary families below: undeclared columns, literal NaN tokens,
        # mnemonic_case, LAS 1.0 / 1.2 and NULL spellings, object reuse - it is a superset of the quick tier)
    for nv in (QUICK_NULLS if tier == "quick" else []):
        for pol in ("strict", "none"):
            for eng in ("numpy", "normal"):
                for pl in PLACEMENTS:
                    pts.append([nv, 0, "2x3", "NO", False, pol, eng, pl])
    # the numpy engine kept although null_policy is not 'strict' (use_normal_engine_for_wrapped=False), and
    # data columns beyond the declared curves (one curve fewer declared, no ~Curve items at all)
    for extra in (["all", True], ["fewer", False], ["none", False], ["fewer", True]):
        for pol in ("strict", "none"):
            for eng in ("numpy", "normal"):
                for pl in PLACEMENTS[::7]:
                    pts.append([0, 0, "2x3", "NO", False, pol, eng, pl] + extra)
    # a literal NaN token already present in the file, in the same column as NULL-equal samples (one cell of the second
    # or third column replaced, every placement of the other cells)
    for nv in (0, 1):
        for lit in (4, 5, 1):
            for eng in ("numpy", "normal"):
                for wrap in ("NO", "YES"):
                    for pl in PLACEMENTS[::3] if wrap == "NO" else PLACEMENTS[::9]:
                        pts.append([nv, 0, "2x3", wrap, False, "strict", eng, pl, "all", False, lit])
    # the same files read with mnemonic_case lower / preserve (the NULL item is then spelled 'null' / as in the file)
    for case in ("lower", "preserve"):
        for nv in (0, 6):
            for pol in ("strict", "none"):
                for eng in ("numpy", "normal"):
                    for wrap in ("NO", "YES"):
                        for pl in PLACEMENTS[::5] if wrap == "NO" else PLACEMENTS[::25]:
                            pts.append([nv, 0, "2x3", wrap, False, pol, eng, pl, "all", False, None, case])
    # LAS 1.2 / 1.0 files and other letter cases of the NULL mnemonic itself; the same object used for two reads (the
    # first file declares as NULL a value that occurs in the second), with and without a NULL item in the second file
    for vers in ("1.2", "1.0", "2.0"):
        for nm in ("NULL", "Null", "null"):
            if vers == "2.0" and nm == "NULL":
                continue
            for eng in ("numpy", "normal"):
                for pl in PLACEMENTS[::11]:
                    pts.append([0, 0, "2x3", "NO", False, "strict", eng, pl, "all", False, None, None, vers, nm, None])
    for mode in ("reuse", "nonull-reuse"):
        for nv in (0, 1):
            for eng in ("numpy", "normal"):
                for pl in PLACEMENTS[::5]:
                    pts.append([nv, 0, "2x3", "NO", False, "strict", eng, pl, "all", False, None, None, "2.0", "NULL", mode])
    for alt in ([0, 1, "2x3", "NO", False], [0, 2, "2x3", "NO", False], [0, 0, "3x2", "NO", False],
                [0, 0, "2x3", "YES", False], [0, 0, "2x3", "NO", True], [1, 1, "3x2", "YES", True], [7, 2, "2x3", "NO", False],
                [2, 1, "2x3", "NO", False]):
        for eng in ("numpy", "normal"):
            for pl in PLACEMENTS[::2]:
                pts.append(alt + ["strict", eng, pl])
    return pts


def build(pt):
    nv, hs, shape, wrap, text, pol, eng, pl = pt[:8]
    declared = pt[8] if len(pt) > 8 else "all"
    lit = pt[10] if len(pt) > 10 else None
    nullv, hsp, dsp, near = NULLS[nv]
    r, c = (2, 3) if shape == "2x3" else (3, 2)
    toks, kinds = [], []
    k = 0
    for i in range(r):
        row, krow = [], []
        for j in range(c):
            kind = pl[k]
            if kind == "N":
                t = hsp[hs] if False else dsp[0]
            elif kind == "M":
                t = dsp[1]
            elif kind == "n":
                t = near[(i + j) % 2]
            else:
                t = ORD[k]
            if lit is not None and k == lit:
                t = ("NaN", "nan", "NAN")[(i + j) % 3]
                kind = "L"
            row.append(t)
            krow.append(kind)
            k += 1
        toks.append(row)
        kinds.append(krow)
    ncur = c + (1 if text else 0)
    curves = [("DEPT", "M", "", "depth")] + [("C%d" % j, "", "", "curve %d" % j) for j in range(1, c)]
    if text:
        curves.append(("TXT", "", "", "text column"))
    if declared == "fewer":
        curves = curves[:-1]
    elif declared == "none":
        curves = []
    lines = ["~A"]
    for i, row in enumerate(toks):
        full = list(row) + (["abc%d" % i] if text else [])
        if wrap == "YES":
            lines.append(full[0])
            lines.append("  ".join(full[1:]))
        else:
            lines.append("  ".join(full))
    vers = pt[12] if len(pt) > 12 and pt[12] else "2.0"
    nm = pt[13] if len(pt) > 13 and pt[13] else "NULL"
    mode = pt[14] if len(pt) > 14 else None
    well = lasgen.well_section(None if mode == "nonull-reuse" else hsp[hs], strt="1", stop="2", step="1")
    well = [ln.replace("NULL", nm, 1) if ln.lstrip().startswith("NULL") else ln for ln in well]
    secs = [lasgen.version_section(vers, wrap), well, lasgen.curve_section(curves), lines]
    return lasgen.render(secs), toks, kinds, nullv, r, c


def check_point(pt):
    from ..core import inputs as _inputs
    _inputs.process_prelude()   # explored in a process that has already read many other files (see core/inputs.py)
    nv, hs, shape, wrap, text, pol, eng, pl = pt[:8]
    keep_numpy = pt[9] if len(pt) > 9 else False
    textfile, toks, kinds, nullv, r, c = build(pt)
    rkw = {"use_normal_engine_for_wrapped": False} if keep_numpy else {}
    if len(pt) > 11 and pt[11]:
        rkw["mnemonic_case"] = pt[11]
    nontriv = any(k != "o" for k in pl)
    ptd = {"nullv": nv, "hspell": hs, "shape": shape, "wrap": wrap, "text": text, "policy": pol, "engine": eng, "placement": pl}

    def V(clause, expected, observed, sig=None):
        return {"clause": clause, "sig": sig or "%s:null=%s:%s" % (pol, NULLS[nv][0], "wrap" if wrap == "YES" else "nowrap") + (":text" if text else "")
                + (":declared=%s" % pt[8] if len(pt) > 8 and pt[8] != "all" else "") + (":keep-numpy" if keep_numpy else "") + (":literal-nan" if len(pt) > 10 and pt[10] is not None else "") + (":case=" + pt[11] if len(pt) > 11 and pt[11] else "")
                + (":vers=%s:%s" % (pt[12], pt[13]) if len(pt) > 13 and (pt[12] != "2.0" or pt[13] != "NULL") else "") + (":" + pt[14] if len(pt) > 14 and pt[14] else ""),
                "witness": {"point": pt, "text": textfile},
                "expected": expected, "observed": observed, "size": len(textfile) + 10 * sum(k != "o" for k in pl),
                "repro": "import lasio; print(lasio.read(%r, engine=%r, null_policy=%r, **%r).data)" % (textfile, eng, pol, rkw)}

    mode = pt[14] if len(pt) > 14 else None
    try:
        if mode:
            # the object has read another file before: that file's NULL (this file's NULL value, spelled plainly) is not this file's
            las = lasio.LASFile()
            las.read(io.StringIO("~V\nVERS. 2.0 : v\nWRAP. NO : w\n~W\nSTRT.M 1 : s\nSTOP.M 2 : s\nSTEP.M 1 : s\nNULL. %s : n\n~C\nD.M : d\nG. : g\n~A\n1 5\n2 6\n"
                                 % NULLS[nv][1][0]), engine=eng)
            las.read(io.StringIO(textfile), engine=eng, null_policy=pol, **rkw)
        else:
            las = lasio.read(textfile, engine=eng, null_policy=pol, **rkw)
    except Exception as e:
        return [V("read-raises", "successful read", "%s: %s" % (type(e).__name__, str(e)[:150]))], nontriv, "raise", {}, 1
    vio = []
    cur = list(las.curves)
    if len(cur) != c + (1 if text else 0) or any(len(x.data) != r for x in cur):
        return [V("shape", [r, c + (1 if text else 0)], [[len(x.data) for x in cur]])], nontriv, "ok", {}, 1
    exp_mask = np.zeros((r, c), bool)
    for i in range(r):
        for j in range(c):
            col = np.asarray(cur[j].data)
            want_nan = ((j != 0) and kinds[i][j] in "NM" and pol == "strict" and mode != "nonull-reuse") or kinds[i][j] == "L"
            exp_mask[i, j] = want_nan
            try:
                got = float(col[i])
            except Exception:
                vio.append(V("numeric-column-not-float", "float", repr(col[i])))
                continue
            if want_nan:
                if not np.isnan(got):
                    vio.append(V("null-not-nan", {"cell": [i, j], "token": toks[i][j]}, got))
            else:
                want = float(toks[i][j])
                if np.isnan(got):
                    clause = "index-nulled" if j == 0 else ("policy-none-nulled" if pol == "none" else "non-null-became-nan")
                    vio.append(V(clause, {"cell": [i, j], "token": toks[i][j], "value": want}, "nan"))
                elif got != want:
                    vio.append(V("value-changed", {"cell": [i, j], "value": want}, got))
    if text:
        got = [str(x) for x in np.asarray(cur[c].data).tolist()]
        if got != ["abc%d" % i for i in range(r)]:
            vio.append(V("text-column-changed", ["abc%d" % i for i in range(r)], got))
    if vio or mode == "nonull-reuse":
        # (an object without a NULL item has no "current NULL value" to emit NaN as: the write clauses do not apply)
        return vio[:3], nontriv, "ok", {}, 1
    # write with defaults, read back: NaN positions of non-index columns are identical
    evals = 1
    try:
        s = io.StringIO()
        las.write(s)
        las2 = lasio.read(s.getvalue(), null_policy=pol)
        evals = 3
    except Exception as e:
        return [V("roundtrip-raises", "write+read succeed", "%s: %s" % (type(e).__name__, str(e)[:150]))], nontriv, "ok", {}, 2
    try:
        c1, c2 = list(las.curves), list(las2.curves)
        m1 = np.array([[_isnan(c1[j].data[i]) for j in range(c)] for i in range(r)])
        m2 = np.array([[_isnan(c2[j].data[i]) for j in range(c)] for i in range(r)])
        if len(las2.curves) < c or m1.tolist() != m2.tolist():
            vio.append(V("roundtrip-nan-mask", m1.tolist(), m2.tolist()))
    except Exception as e:
        vio.append(V("roundtrip-nan-mask", "comparable curves", repr(e)))
    if vio or text:
        return vio, nontriv, "ok", {}, evals
    # every NaN is EMITTED as the NULL value whatever numeric format is chosen (sign / zero-fill flags, per-column formats):
    # read the output back with null_policy='none' - the NaN cells must hold the NULL value, never a NaN token
    if pol == "strict":
        var = FMT_VARIANTS[PLACEMENTS.index(pl) % len(FMT_VARIANTS)]
        try:
            s = io.StringIO()
            las.write(s, **var)
            lasn = lasio.read(s.getvalue(), null_policy="none")
            evals += 2
            cn = list(lasn.curves)
            for j in range(1, c):
                for i in range(r):
                    if _isnan(c1[j].data[i]):
                        try:
                            got = float(cn[j].data[i])
                        except Exception:
                            got = repr(cn[j].data[i])
                        if not (isinstance(got, float) and abs(got - nullv) <= 1e-9 * max(1.0, abs(nullv))):
                            vio.append(V("nan-not-emitted-as-null", {"cell": [i, j], "options": repr(var), "NULL": nullv}, got))
                            break
                if vio:
                    break
        except Exception as e:
            vio.append(V("formatted-write-raises", "write(%r)+read succeed" % (var,), "%s: %s" % (type(e).__name__, str(e)[:150])))
        if vio:
            return vio, nontriv, "ok", {}, evals
    # second write after in-place edits that add and remove NaNs (the object has been written once already)
    try:
        cl = list(las.curves)
        toggled = []
        for j in range(1, c):
            col = cl[j].data
            if col.dtype.kind != "f":
                continue
            for i in range(r):
                col[i] = 77.5 if np.isnan(col[i]) else np.nan
                toggled.append((i, j))
        s = io.StringIO()
        las.write(s)
        las3 = lasio.read(s.getvalue(), null_policy=pol)
        evals += 2
        c3 = list(las3.curves)
        m1 = [[_isnan(cl[j].data[i]) for j in range(c)] for i in range(r)]
        m3 = [[_isnan(c3[j].data[i]) for j in range(c)] for i in range(r)]
        if m1 != m3 and pol == "strict":
            vio.append(V("rewrite-nan-mask", {"memory after in-place edits": m1}, m3))
    except Exception as e:
        vio.append(V("rewrite-raises", "second write+read succeed", "%s: %s" % (type(e).__name__, str(e)[:150])))
    return vio, nontriv, "ok", {}, evals


def _isnan(x):
    try:
        return bool(np.isnan(float(x)))
    except Exception:
        return False


e1.install(globals(), unit_size=512, sample_of=lambda pt: {"point": pt, "text": build(pt)[0]})
