"""C20 - every file lasio opens is closed again, whatever fails and wherever.
E3: for each call scenario a clean run records the I/O operation trace of the
files lasio opened; the call is then repeated with OSError injected at
operation k for every k, plus the input-induced failure classes."""
import gc
import io
import os
import pathlib
import shutil
import tempfile

import numpy as np

import lasio

from ..core import e1, faults

PROPERTY = "C20"
LEVEL = "fault_enumeration"
RULE = (
    "scenarios: read(str path) of plain / BOM / latin-1 / wrapped / inner-~A files and of files ending in a DOS Ctrl-Z marker or form feed (round 8) under default (chardet), "
    "autodetect_encoding=False (ad-hoc sniff) and explicit encoding=; read(pathlib.Path); write(path) with default, 1.2 "
    "and wrap options; to_csv(path); write(fileobj) and to_csv(fileobj) with caller-supplied objects; two-call sequences on one LASFile (a path call that succeeds or fails, then a call with the caller's file object); input-induced "
    "failures (no sections, LiDAR magic, header error, reshape error, strict decoding error, missing file, write() "
    "raising after open: missing VERS / duplicated STEP, to_csv raising after open); for every scenario the clean run's "
    "proxied operation count N is measured and the call repeated with an injected OSError at operation k for k=1..N; whenever lasio catches the fault and carries on (encoding probes), every later operation of that run is tried for a second fault (thorough: a third); "
    "after every run, with the exception object still referenced, every file lasio opened must be closed, "
    "caller-supplied objects must be open and vars(las) must hold no open file; non-trivial = injected run in which the "
    "fault fired"
)
ASSUMPTIONS = [
    "faults are OSError raised at the boundary of read/readline/iteration/seek/tell/write calls on files lasio opened itself (no short writes, no faults inside close())",
    "files are recognised as lasio's by their path lying inside the harness's scratch directory",
]

BASE = (
    "~Version\nVERS. 2.0 : v\nWRAP. NO : w\n~Well\nSTRT.M 1.0 : start\nSTOP.M 3.0 : stop\nSTEP.M 1.0 : step\nNULL. -999.25 : null\n"
    "WELL. my well : name\n~Curve\nDEPT.M : depth\nGR.GAPI : gamma\n~Parameter\nP1.U 3.5 : p\n~Other\ntext\n~ASCII\n"
    "1.0 10.5\n2.0 -999.25\n3.0 30.5\n"
)
WRAPPED = BASE.replace("WRAP. NO", "WRAP. YES").replace("1.0 10.5\n2.0 -999.25\n3.0 30.5\n", "1.0\n10.5\n2.0\n-999.25\n3.0\n30.5\n")
INNER = BASE.replace("~Parameter\nP1.U 3.5 : p\n~Other\ntext\n~ASCII\n1.0 10.5\n2.0 -999.25\n3.0 30.5\n",
                     "~ASCII\n1.0 10.5\n2.0 -999.25\n3.0 30.5\n~Parameter\nP1.U 3.5 : p\n~Other\ntext\n")
NONASCII = BASE.replace("my well", "Bohrung Süd °C")

READ_FILES = {
    "plain": BASE.encode("ascii"),
    "bom": b"\xef\xbb\xbf" + NONASCII.encode("utf-8"),
    "utf8": NONASCII.encode("utf-8"),
    "latin1": NONASCII.encode("latin-1"),
    "wrapped": WRAPPED.encode("ascii"),
    "inner": INNER.encode("ascii"),
    "nosections": b"this is not\na las file\nat all\n",
    "lidar": b"LASF" + b"\x00" * 40 + b"\n~V\n",
    "headererr": BASE.replace("WELL. my well : name", "WELL my well no delimiters at all").encode("ascii"),
    "reshape": WRAPPED.replace("3.0\n30.5\n", "3.0\n").encode("ascii"),
    "undecodable": BASE.replace("my well", "bad \xff\xfe bytes").encode("latin-1"),
    # files shorter than any byte-order mark or sniffing window
    "empty": b"", "1byte": b"~", "2bytes": b"~A", "3bytes": b"~A\n", "4bytes": b"~V\n\n",
    # encodings whose decoder carries state across a rewind (byte-order mark at the start)
    "gzip": __import__("gzip").compress(BASE.encode("ascii")), "gzip-nonascii": __import__("gzip").compress(NONASCII.encode("utf-8")),
    "zip-magic": b"PK\x03\x04" + b"\x00" * 60, "nul-bytes": BASE.encode("ascii").replace(b"my well", b"my\x00well"),
    # round 8: DOS end-of-file marker (Ctrl-Z) / form feed / blanks as the last bytes of the file
    "ctrlz": BASE.encode("ascii") + b"\x1a", "ctrlz-crlf": BASE.replace("\n", "\r\n").encode("ascii") + b"\x1a\r\n",
    "ctrlz-nosections": b"not a las file\n\x1a", "formfeed": BASE.encode("ascii") + b"\x0c\n", "ctrlz-header-only": BASE.split("~ASCII")[0].encode("ascii") + b"\x1a",
    "utf16": NONASCII.encode("utf-16"), "utf32": NONASCII.encode("utf-32"), "utf16le": NONASCII.encode("utf-16-le"),
}

READ_SCENARIOS = [
    # name, file, kwargs, use_path_object
    ("read:plain:default", "plain", {}, False),
    ("read:plain:pathlib", "plain", {}, True),
    ("read:plain:noauto", "plain", {"autodetect_encoding": False}, False),
    ("read:plain:encoding", "plain", {"encoding": "ascii"}, False),
    ("read:plain:normal-engine", "plain", {"engine": "normal"}, False),
    ("read:plain:ignore-data", "plain", {"ignore_data": True}, False),
    ("read:bom:default", "bom", {}, False),
    ("read:utf8:default", "utf8", {}, False),
    ("read:utf8:chardet-nochars", "utf8", {"autodetect_encoding_chars": None}, False),
    ("read:latin1:noauto", "latin1", {"autodetect_encoding": False}, False),
    ("read:latin1:encoding", "latin1", {"encoding": "latin-1"}, True),
    ("read:wrapped:default", "wrapped", {}, False),
    ("read:inner:default", "inner", {}, False),
    ("read:inner:normal", "inner", {"engine": "normal"}, False),
    ("read:nosections", "nosections", {}, False),
    ("read:lidar", "lidar", {"encoding": "latin-1"}, False),
    ("read:headererr", "headererr", {}, False),
    ("read:headererr:ignored", "headererr", {"ignore_header_errors": True}, False),
    ("read:reshape", "reshape", {}, False),
    ("read:undecodable:strict", "undecodable", {"encoding": "utf-8", "encoding_errors": "strict"}, False),
    ("read:missing", None, {}, False),
    ("read:empty", "empty", {}, False),
    ("read:empty:pathlib", "empty", {}, True),
    ("read:empty:noauto", "empty", {"autodetect_encoding": False}, False),
    ("read:empty:encoding", "empty", {"encoding": "utf-8"}, False),
    ("read:1byte", "1byte", {}, False),
    ("read:2bytes", "2bytes", {}, False),
    ("read:2bytes:pathlib", "2bytes", {}, True),
    ("read:3bytes", "3bytes", {}, False),
    ("read:4bytes", "4bytes", {}, False),
    ("read:gzip", "gzip", {}, False),
    ("read:gzip:pathlib", "gzip", {}, True),
    ("read:gzip:encoding", "gzip-nonascii", {"encoding": "utf-8"}, False),
    ("read:gzip:noauto", "gzip", {"autodetect_encoding": False}, False),
    ("read:zip-magic", "zip-magic", {}, False),
    ("read:nul-bytes", "nul-bytes", {}, False),
    ("read:utf16:default", "utf16", {}, False),
    ("read:utf16:pathlib", "utf16", {}, True),
    ("read:utf16:encoding", "utf16", {"encoding": "utf-16"}, False),
    ("read:utf16:encoding-upper", "utf16", {"encoding": "UTF-16"}, True),
    ("read:utf32:encoding", "utf32", {"encoding": "utf-32"}, False),
    ("read:utf32:default", "utf32", {}, False),
    ("read:utf16le:encoding", "utf16le", {"encoding": "utf-16-le"}, False),
    ("read:plain:encoding-utf16", "plain", {"encoding": "utf-16"}, False),
    ("read:ctrlz:default", "ctrlz", {}, False),
    ("read:ctrlz:encoding", "ctrlz", {"encoding": "ascii"}, True),
    ("read:ctrlz:noauto", "ctrlz", {"autodetect_encoding": False}, False),
    ("read:ctrlz:ignore-data", "ctrlz", {"encoding": "utf-8", "ignore_data": True}, False),
    ("read:ctrlz:normal", "ctrlz", {"encoding": "utf-8", "engine": "normal"}, False),
    ("read:ctrlz-crlf:encoding", "ctrlz-crlf", {"encoding": "utf-8"}, False),
    ("read:ctrlz-nosections", "ctrlz-nosections", {}, True),
    ("read:ctrlz-header-only:encoding", "ctrlz-header-only", {"encoding": "latin-1"}, False),
    ("read:formfeed:encoding", "formfeed", {"encoding": "ascii"}, False),
    ("read:headererr:utf16", "utf16", {"encoding": "utf-16", "ignore_header_errors": False, "engine": "normal"}, False),
]


def make_las(kind):
    if kind == "missing-vers":
        las = lasio.read(BASE)
        del las.version["VERS"]
        return las
    if kind == "dup-step":
        las = lasio.read(BASE)
        las.well.append(lasio.HeaderItem("STEP", "M", 2.0, "second step"))
        return las
    if kind == "text-curve":
        return lasio.read(BASE.replace("10.5", "abc").replace("30.5", "def"))
    if kind == "nocurves":
        return lasio.LASFile()
    if kind == "header-only":
        return lasio.read(BASE.split("~ASCII")[0].replace("DEPT.M : depth\nGR.GAPI : gamma\n", ""))
    if kind == "surrogate":
        # header text that no codec can encode (a lone surrogate, as left by encoding_errors='surrogateescape')
        las = lasio.read(BASE)
        las.well["WELL"].value = "bad \udcff text"
        las.params["P1"].descr = "\udc80"
        return las
    if kind == "scratch":
        las = lasio.LASFile()
        las.append_curve("DEPT", np.arange(5.0), unit="m")
        las.append_curve("A", np.arange(5.0) * 2)
        return las
    return lasio.read(BASE)


WRITE_SCENARIOS = [
    # name, method, las kind, kwargs, target ('path' | 'fileobj')
    ("write:path:default", "write", "read", {}, "path"),
    ("write:path:v12", "write", "read", {"version": 1.2}, "path"),
    ("write:path:wrap", "write", "read", {"wrap": True}, "path"),
    ("write:path:scratch", "write", "scratch", {}, "path"),
    ("write:path:text-curve", "write", "text-curve", {}, "path"),
    ("write:path:missing-vers", "write", "missing-vers", {}, "path"),
    ("write:path:dup-step", "write", "dup-step", {}, "path"),
    ("write:path:bad-fmt", "write", "read", {"fmt": "%d %d"}, "path"),
    ("write:fileobj:default", "write", "read", {}, "fileobj"),
    ("write:fileobj:missing-vers", "write", "missing-vers", {}, "fileobj"),
    ("to_csv:path:default", "to_csv", "read", {}, "path"),
    ("to_csv:path:units-brackets", "to_csv", "read", {"units_loc": "[]"}, "path"),
    ("to_csv:path:bad-mnemonics", "to_csv", "read", {"mnemonics": [1, 2], "units_loc": "[]"}, "path"),
    ("to_csv:path:bad-dialect", "to_csv", "read", {"delimiter": "toolong"}, "path"),
    ("to_csv:fileobj:default", "to_csv", "read", {}, "fileobj"),
    ("to_csv:fileobj:bad-mnemonics", "to_csv", "read", {"mnemonics": [1, 2], "units_loc": "[]"}, "fileobj"),
    # other kinds of caller-supplied objects (binary handle, BytesIO, StringIO), calls that succeed and calls that fail
    ("write:binaryfile:default", "write", "read", {}, "fileobj-binary"),
    ("write:binaryfile:bad-version", "write", "read", {"version": 3.0}, "fileobj-binary"),
    ("write:binaryfile:bad-fmt", "write", "read", {"fmt": "%q"}, "fileobj-binary"),
    ("to_csv:binaryfile:default", "to_csv", "read", {}, "fileobj-binary"),
    ("to_csv:binaryfile:bad-dialect", "to_csv", "read", {"delimiter": "toolong"}, "fileobj-binary"),
    ("write:bytesio:default", "write", "read", {}, "bytesio"),
    ("write:bytesio:bad-version", "write", "read", {"version": 3.0}, "bytesio"),
    ("to_csv:bytesio:bad-mnemonics", "to_csv", "read", {"mnemonics": [1, 2], "units_loc": "[]"}, "bytesio"),
    ("write:stringio:bad-version", "write", "read", {"version": 3.0}, "stringio"),
    ("write:stringio:missing-vers", "write", "missing-vers", {}, "stringio"),
    ("to_csv:stringio:bad-dialect", "to_csv", "read", {"delimiter": "toolong"}, "stringio"),
    ("write:fileobj:bad-fmt", "write", "read", {"fmt": "%q"}, "fileobj"),
    # text that cannot be encoded, to a path and to the caller's file
    ("write:path:unencodable", "write", "surrogate", {}, "path"),
    ("write:path:unencodable-wrap", "write", "surrogate", {"wrap": True, "version": 1.2}, "path"),
    ("write:fileobj:unencodable", "write", "surrogate", {}, "fileobj"),
    ("to_csv:path:unencodable-header", "to_csv", "surrogate", {"mnemonics": ["a\udcff", "b"], "units": ["u", "v"]}, "path"),
    # a pathlib.Path where a file name or a file object is expected
    ("write:pathlib:default", "write", "read", {}, "pathlib"),
    ("write:pathlib:bad-version", "write", "read", {"version": 3.0}, "pathlib"),
    ("write:pathlib:missing-vers", "write", "missing-vers", {}, "pathlib"),
    ("to_csv:pathlib:default", "to_csv", "read", {}, "pathlib"),
    ("to_csv:pathlib:bad-dialect", "to_csv", "read", {"delimiter": "toolong"}, "pathlib"),
    ("write:bytespath:default", "write", "read", {}, "bytespath"),
    # objects without curves; targets that exist already (a second write to the same path, overwriting a file)
    ("to_csv:path:nocurves", "to_csv", "nocurves", {}, "path"),
    ("to_csv:path:header-only", "to_csv", "header-only", {}, "path"),
    ("to_csv:path:nocurves-mnemonics", "to_csv", "nocurves", {"mnemonics": ["a"], "units": ["b"]}, "path"),
    ("write:path:nocurves", "write", "nocurves", {}, "path"),
    ("write:existing:default", "write", "read", {}, "existing-path"),
    ("write:existing:bad-fmt", "write", "read", {"fmt": "%q"}, "existing-path"),
    ("write:existing:missing-vers", "write", "missing-vers", {}, "existing-path"),
    ("to_csv:existing:default", "to_csv", "read", {}, "existing-path"),
    ("to_csv:existing:bad-dialect", "to_csv", "read", {"delimiter": "toolong"}, "existing-path"),
]

# two calls on the SAME LASFile: a path call (which may fail, by itself or by an injected fault) followed by a call
# with a caller-supplied file object - whatever happened first, the caller's object stays open and nothing leaks
SEQ_SCENARIOS = [
    # name, first (method, las kind, kwargs), second method
    ("seq:write-path-ok>write-fileobj", ("write", "read", {}), "write"),
    ("seq:write-path-missing-vers>write-fileobj", ("write", "missing-vers", {}), "write"),
    ("seq:write-path-bad-version>write-fileobj", ("write", "read", {"version": 3}), "write"),
    ("seq:write-path-bad-version>to_csv-fileobj", ("write", "read", {"version": 3}), "to_csv"),
    ("seq:to_csv-path-bad-dialect>to_csv-fileobj", ("to_csv", "read", {"delimiter": "toolong"}), "to_csv"),
    ("seq:to_csv-path-bad-mnemonics>write-fileobj", ("to_csv", "read", {"mnemonics": [1, 2], "units_loc": "[]"}), "write"),
    ("seq:to_csv-path-ok>to_csv-fileobj", ("to_csv", "read", {}), "to_csv"),
]

SCEN = {s[0]: ("read",) + s[1:] for s in READ_SCENARIOS}
SCEN.update({s[0]: ("write",) + s[1:] for s in WRITE_SCENARIOS})
SCEN.update({s[0]: ("seq",) + s[1:] for s in SEQ_SCENARIOS})


def bounds(tier):
    return {"scenarios": list(SCEN), "fault": "OSError at the k-th proxied operation, k = 1..N(clean run); when the call survives a fault "
            "(lasio caught it and went on) every later operation of that run is tried for a further fault",
            "max_faults_per_run": 2 if tier == "quick" else 3}


_TMP = {}


def scratch_dir():
    pid = os.getpid()
    if pid not in _TMP:
        out = os.path.join(os.path.dirname(os.path.dirname(os.path.dirname(os.path.abspath(__file__)))), "out")
        os.makedirs(out, exist_ok=True)
        _TMP.clear()
        _TMP[pid] = tempfile.mkdtemp(prefix="c20.", dir=out)
        import atexit
        atexit.register(shutil.rmtree, _TMP[pid], True)
    return _TMP[pid]


def run_once(name, inject_at):
    """One execution of a scenario. Returns dict(trace_len, fired, leaks, caller_closed, las_holds, outcome, opens)."""
    spec = SCEN[name]
    d = scratch_dir()
    caller = []
    las = None
    exc = None
    if spec[0] == "read":
        _, fkey, kwargs, as_path = spec
        path = os.path.join(d, "input.las")
        if fkey is None:
            path = os.path.join(d, "does-not-exist.las")
        else:
            with open(path, "wb") as f:
                f.write(READ_FILES[fkey])
        ref = pathlib.Path(path) if as_path else path
        with faults.Session(d, inject_at) as sess:
            try:
                las = lasio.read(ref, **kwargs)
            except BaseException as e:  # noqa - the exception object is kept alive on purpose
                exc = e
            leaks = [(p.ident, p._f.name if hasattr(p._f, "name") else "?", p._f.mode if hasattr(p._f, "mode") else "?") for p in sess.open_handles()]
    elif spec[0] == "seq":
        _, first, second = spec
        method, kind, kwargs = first
        obj = make_las(kind)
        if kind == "missing-vers":
            pass
        las = obj
        path = os.path.join(d, "output.out")
        path2 = os.path.join(d, "output2.out")
        for pth in (path, path2):
            if os.path.exists(pth):
                os.remove(pth)
        fo = open(path2, "w", newline="")
        caller.append(fo)
        with faults.Session(d, inject_at) as sess:
            try:
                getattr(obj, method)(path, **kwargs)
            except BaseException as e:  # noqa
                exc = e
            # second call: a caller-supplied object; a file object lives outside the scratch dir proxies
            try:
                if kind == "missing-vers" and second == "write":
                    obj.version.append(lasio.HeaderItem("VERS", "", 2.0, "restored"))
                getattr(obj, second)(fo)
            except BaseException as e2:  # noqa
                exc = exc or e2
            leaks = [(p.ident, getattr(p._f, "name", "?"), getattr(p._f, "mode", "?")) for p in sess.open_handles()]
    else:
        _, method, kind, kwargs, target = spec
        obj = make_las(kind)
        path = os.path.join(d, "output.out")
        if os.path.exists(path):
            os.remove(path)
        if target == "fileobj":
            fo = open(path, "w", newline="")
            caller.append(fo)
            ref = fo
        elif target == "fileobj-binary":
            fo = open(path, "wb")       # the caller's own binary handle: whatever lasio makes of it, it stays the caller's
            caller.append(fo)
            ref = fo
        elif target == "bytesio":
            fo = io.BytesIO()
            caller.append(fo)
            ref = fo
        elif target == "stringio":
            fo = io.StringIO()
            caller.append(fo)
            ref = fo
        elif target == "existing-path":
            with open(path, "w") as pre:
                pre.write("an older file under the same name\n" * 3)
            ref = path
        elif target == "pathlib":
            ref = pathlib.Path(path)
        elif target == "bytespath":
            ref = os.fsencode(path)
        else:
            ref = path
        las = obj
        with faults.Session(d, inject_at) as sess:
            try:
                getattr(obj, method)(ref, **kwargs)
            except BaseException as e:  # noqa
                exc = e
            leaks = [(p.ident, getattr(p._f, "name", "?"), getattr(p._f, "mode", "?")) for p in sess.open_handles()]
    caller_closed = [getattr(c, "name", "?") for c in caller if c.closed]
    holds = []
    if las is not None:
        for k, v in vars(las).items():
            if isinstance(v, (io.IOBase, faults.FileProxy)) and not v.closed:
                holds.append(k)
    outcome = "ok" if exc is None else type(exc).__name__
    # ... and once more after the exception (with the frames it keeps alive) has been released and collected: a wrapper
    # lasio put around the caller's object must not take it along when it is finalised
    exc = None
    gc.collect()
    caller_closed = caller_closed + [str(getattr(c, "name", "?")) + " (after the exception was released)" for c in caller
                                     if c.closed and getattr(c, "name", "?") not in caller_closed]
    res = {"trace_len": sess.count, "fired": sess.fired, "fired_all": list(sess.fired_all), "leaks": leaks, "caller_closed": caller_closed, "las_holds": holds,
           "outcome": outcome, "opens": len(sess.proxies),
           "trace": [t[1] for t in sess.trace]}
    sess.close_all()
    for c in caller:
        try:
            c.close()
        except Exception:
            pass
    del exc
    return res


def check_scenario(name, only_k=None, max_faults=2):
    vio = []
    evals = 0
    fired = 0
    clean = run_once(name, None)
    evals += 1
    n = clean["trace_len"]

    def judge(r, k):
        out = []
        base = name.split(":")[0] + ":" + (name.split(":")[1] if ":" in name else "")
        if r["leaks"]:
            out.append(V("handle-left-open", name, k, "every file lasio opened is closed", r, base))
        if r["caller_closed"]:
            out.append(V("caller-file-closed", name, k, "caller-supplied file object left open", r, base))
        if r["las_holds"]:
            out.append(V("lasfile-holds-open-handle", name, k, "no open handle in vars(las)", r, base))
        return out

    if only_k in (None, 0):
        vio.extend(judge(clean, 0))
    counters = {"evals": 0, "fired": 0, "multi": 0}

    def explore(prefix, more):
        """One run with faults at the operation numbers in `prefix`; if lasio swallowed the last fault and went on
        (the trace is longer than the fault position), every later operation is a candidate for a further fault."""
        r = run_once(name, tuple(prefix))
        counters["evals"] += 1
        if len(r["fired_all"]) == len(prefix):
            counters["fired"] += 1
            if len(prefix) > 1:
                counters["multi"] += 1
        if r["opens"] > clean["opens"] and len(prefix) == 1:
            vio.append(V("more-opens-than-clean-run", name, list(prefix), clean["opens"], r, "harness"))
        vio.extend(judge(r, list(prefix) if len(prefix) > 1 else prefix[0]))
        if more > 0 and len(r["fired_all"]) == len(prefix) and r["trace_len"] > prefix[-1]:
            for k2 in range(prefix[-1] + 1, r["trace_len"] + 1):
                explore(prefix + [k2], more - 1)

    if isinstance(only_k, list):
        explore(list(only_k), 0)
    else:
        for k in range(1, n + 1):
            if only_k is not None and k != only_k:
                continue
            explore([k], (max_faults - 1) if only_k is None else 0)
    evals += counters["evals"]
    fired += counters["fired"]
    clean["multi_fault_runs"] = counters["multi"]
    return vio, evals, fired, clean


def V(clause, name, k, expected, r, base):
    return {"clause": clause, "sig": "%s:%s" % (base, "clean" if k == 0 and r["outcome"] == "ok" else ("input-error" if k == 0 else "injected")),
            "witness": {"scenario": name, "k": k},
            "expected": expected,
            "observed": {"leaks": r["leaks"], "outcome": r["outcome"], "fired": r["fired"], "caller_closed": r["caller_closed"], "las_holds": r["las_holds"]},
            "size": k if isinstance(k, int) else sum(k) + 1000 * len(k),
            "repro": "scenario %s of lasiomc.checks.c20 with OSError injected at proxied operation(s) %r (0 = no injection)" % (name, k)}


def units(tier, seed):
    return [{"scenario": n, "max_faults": 2 if tier == "quick" else 3} for n in SCEN]


def run_unit(unit):
    name = unit["scenario"]
    vio, evals, fired, clean = check_scenario(name, max_faults=unit.get("max_faults", 2))
    return {"evals": evals, "nontrivial": fired, "outcomes": {"%s:%s" % (name.split(":")[0], clean["outcome"]): 1},
            "violations": e1.compress(vio),
            "samples": [{"scenario": name, "clean_ops": clean["trace_len"], "opens": clean["opens"], "clean_outcome": clean["outcome"],
                         "trace_head": clean["trace"][:12]}],
            "extra": {"clean_ops_total": clean["trace_len"], "opens_total": clean["opens"], "multi_fault_runs": clean.get("multi_fault_runs", 0)}}


def replay(witness):
    vio, _, _, _ = check_scenario(witness["scenario"], only_k=witness["k"])
    return vio
