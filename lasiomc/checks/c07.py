"""C07 - after any successful read the curves are rectangular and each is bound
to its own column.  E1 over (declared curves d, data columns c, rows r,
engine, wrapped/unwrapped, every cut of a wrapped depth step, sign, sniff
window positions); cells carry their own coordinates."""
import numpy as np

import lasio

from ..core import e1, lasgen, space

PROPERTY = "C07"
LEVEL = "exploration"
RULE = (
    "(round 8: WRAP YES declared with no curve declared at all, default options, both engines, every (c, r): c unnamed curves of r rows) (as built, rounds 4-5: WRAP YES header over unwrapped data with use_normal_engine_for_wrapped=False for every (d, c, r); two data sections; an ISO-date column with hyphen-bearing remarks; NaN filler columns overwritten in place (siblings and a re-read stay NaN)) "
    "files with d declared curves (distinct unit/value/descr each), c data columns and r rows whose cell (i, j) is "
    "100(i+1)+(j+1) (optionally negated outside the index); unwrapped for every (d, c, r); WRAP YES for c == d with "
    "every composition of the c tokens of a depth step into physical lines; rows around the 20-line sniffing window "
    "with an optional blank/comment at the window edge; ~A followed by ~Parameter for d <, =, > c; a remark marker '%' (ignore_data_comments) with remark lines in the data; a family whose mnemonics are integers equal to another curve's position; both engines; a case is non-trivial when d != c, or the file "
    "is wrapped, or r >= 19"
)
ASSUMPTIONS = [
    "a read that raises is not a violation except where the statement defines the outcome (unwrapped uniform lines, "
    "c >= 1; wrapped with c == d)",
    "mnemonic_case default (upper); generated mnemonics are upper case already",
]


def bounds(tier):
    if tier == "quick":
        return {"d": "0..6", "c": "1..6", "r": "1..4", "wrapped": "c==d in 1..8, all compositions, r in 1..3",
                "window_rows": [19, 20, 21, 22, 45], "sign": ["pos", "neg"]}
    return {"d": "0..9", "c": "1..9", "r": "1..5", "wrapped": "c==d in 1..11, all compositions, r in 1..4",
            "window_rows": [18, 19, 20, 21, 22, 23, 40, 41, 45], "sign": ["pos", "neg"]}


def points(tier):
    pts = []
    if tier == "quick":
        D, C, R, W = range(0, 7), range(1, 7), (1, 2, 3, 4), range(1, 9)
        WIN = (19, 20, 21, 22, 45)
        WR = (1, 2, 3)
    else:
        D, C, R, W = range(0, 10), range(1, 10), (1, 2, 3, 4, 5), range(1, 12)
        WIN = (18, 19, 20, 21, 22, 23, 40, 41, 45)
        WR = (1, 2, 3, 4)
    for sign in ("pos", "neg"):
        for eng in ("numpy", "normal"):
            for d in D:
                for c in C:
                    for r in R:
                        pts.append({"kind": "unwrapped", "d": d, "c": c, "r": r, "engine": eng, "sign": sign, "noise": None})
            if eng == "numpy":
                # a header that (wrongly) says WRAP YES over one-line-per-step data, read with the option documented for
                # exactly that case (use_normal_engine_for_wrapped=False): the lines are still the depth steps
                for d in D:
                    for c in C:
                        for r in R:
                            pts.append({"kind": "wrapflag", "d": d, "c": c, "r": r, "engine": eng, "sign": sign, "noise": None})
            # round 8: WRAP YES declared, no curve declared at all, default options (both engines): the only source of
            # the column count is the data, whose uniform lines become c unnamed curves of r rows
            for c in C:
                for r in R:
                    pts.append({"kind": "wrapflag", "d": 0, "c": c, "r": r, "engine": eng, "sign": sign, "noise": None, "defaultopt": True})
            # the dtypes= option (dict by mnemonic / list by position) over every small shape: when such a read succeeds
            # it binds the columns like any other read (a read that raises is outside the statement)
            for d in range(1, 5):
                for c in range(1, 6):
                    for r in (1, 2, 3):
                        for how in ("dict", "list", "list-short"):
                            pts.append({"kind": "dtypes", "d": d, "c": c, "r": r, "engine": eng, "sign": sign, "noise": None, "dtypes": how})
            # the same shapes read with mnemonic_case lower / preserve (the steering items are then stored as 'wrap', 'dlm', ...)
            for case in ("lower", "preserve"):
                for d in range(0, 5):
                    for c in range(1, 5):
                        for r in (1, 2, 3):
                            pts.append({"kind": "unwrapped", "d": d, "c": c, "r": r, "engine": eng, "sign": sign, "noise": None, "case": case})
                for c in (2, 3):
                    for k in range(1, c):
                        pts.append({"kind": "comma-empty", "d": c, "c": c, "r": 2, "engine": eng, "sign": sign, "noise": None, "empty": k, "case": case})
            # a column of ISO dates (a hyphen in every data row) with and without a remark line that itself holds hyphens:
            # the date stays one cell of one column
            for c in (1, 2, 3):
                for r in (1, 2, 3, 5, 22):
                    for noise in [None] + [[kindn, k] for kindn in ("hcomment", "comment") for k in sorted({0, 1, r})]:
                        pts.append({"kind": "dates", "d": c + 1, "c": c, "r": r, "engine": eng, "sign": sign, "noise": noise})
            # two data sections in one file (two log runs): the later one wins; the curves stay rectangular, bound to its
            # columns, and curves without a column in it are NaN of its row count
            for d in (range(0, 5) if tier == "quick" else range(0, 7)):
                for c1 in (1, 2, 3, 4):
                    for c2 in (1, 2, 3, 4):
                        for r1 in (1, 2, 3):
                            for r2 in (1, 2, 3):
                                pts.append({"kind": "twosections", "d": d, "c": c2, "r": r2, "c1": c1, "r1": r1, "engine": eng, "sign": sign, "noise": None})
            for c in W:
                for comp in space.compositions(c):
                    for r in WR:
                        pts.append({"kind": "wrapped", "d": c, "c": c, "r": r, "engine": eng, "sign": sign,
                                    "comp": list(comp), "noise": None})
            for d in (1, 2, 3):
                for c in (1, 2, 3):
                    for r in WIN:
                        for noise in (None, ["blank", 20], ["comment", 20], ["blank", 19], ["blank", r], ["comment", r]):
                            pts.append({"kind": "unwrapped", "d": d, "c": c, "r": r, "engine": eng, "sign": sign,
                                        "noise": noise})
            # an indented '#' comment after the first row of every small unwrapped shape (row counts r+1 dividing r*c included)
            for d in (1, 2, 3, 4, 6, 8):
                for r in (1, 2, 3, 5):
                    for noise in (["icomment", 1], ["icomment", r], ["tcomment", 1]):
                        pts.append({"kind": "unwrapped", "d": d, "c": d, "r": r, "engine": eng, "sign": sign, "noise": noise})
            # comma-delimited data with an empty cell column (the cell is empty in every row): no other column may move
            for c in (3, 4):
                for r in (2, 3):
                    for k in range(1, c):
                        pts.append({"kind": "comma-empty", "d": c, "c": c, "r": r, "engine": eng, "sign": sign, "noise": None, "empty": k})
            # ~A followed by another section (the section-end arithmetic of the sniffer and of both engines), d <, =, > c
            for d in (1, 2, 3, 4):
                for c in (1, 2, 3, 4):
                    for r in (1, 2, 3, 19, 20, 21, 22):
                        if r > 3 and (d > 3 or c > 3):
                            continue
                        pts.append({"kind": "unwrapped", "d": d, "c": c, "r": r, "engine": eng, "sign": sign, "noise": None, "follows": True})
            # a remark marker other than '#' (read option ignore_data_comments), remark lines inside the data
            for d in (1, 2, 3, 4, 6, 8):
                for r in (1, 2, 3, 5):
                    for noise in (["pcomment", 1], ["pcomment", r]):
                        pts.append({"kind": "unwrapped", "d": d, "c": d, "r": r, "engine": eng, "sign": sign, "noise": noise, "marker": "%"})
            # mnemonics that are themselves integers equal to another curve's position (a lookup by
            # position must never be answered by name)
            for d in (2, 3, 4, 5):
                for c in sorted({d - 1, d, d + 1}):
                    for r in (1, 3):
                        pts.append({"kind": "unwrapped", "d": d, "c": c, "r": r, "engine": eng, "sign": sign, "noise": None,
                                    "names": "numeric"})
                pts.append({"kind": "wrapped", "d": d, "c": d, "r": 2, "engine": eng, "sign": sign, "noise": None,
                            "names": "numeric", "comp": list(space_default_cut(d))})
            # wrapped with many rows (window inside the data), uniform and non-uniform cuts
            for c in (2, 3, 4):
                for comp in space.compositions(c):
                    for r in (7, 11, 21):
                        pts.append({"kind": "wrapped", "d": c, "c": c, "r": r, "engine": eng, "sign": sign,
                                    "comp": list(comp), "noise": None})
    return pts


def space_default_cut(c):
    return (c,) if c == 1 else (1, c - 1)


def cell(i, j, sign):
    v = 100 * (i + 1) + (j + 1)
    if sign == "neg" and j > 0:
        v = -v
    return v


def build_text(pt):
    d, c, r = pt["d"], pt["c"], pt["r"]
    curves = lasgen.std_curves(d)
    if pt.get("names") == "numeric":
        # curve j (j >= 1) is named after the position of the next curve, the last one after position 1; curve 0 after position d-1
        curves = [((str((j % max(d - 1, 1)) + 1) if j else str(max(d - 1, 0))), u, v, de) for j, (_, u, v, de) in enumerate(curves)]
    wrap = "YES" if pt["kind"] in ("wrapped", "wrapflag") else "NO"
    secs = [lasgen.version_section("2.0", wrap, dlm="COMMA" if pt["kind"] == "comma-empty" else None), lasgen.well_section("-999.25")]
    secs.append(lasgen.curve_section(curves))
    lines = ["~ASCII"]
    if pt["kind"] == "twosections":
        # the first run: other values (row numbers 50+), its own shape
        for i in range(pt["r1"]):
            lines.append("  ".join(str(cell(50 + i, j, pt["sign"])) for j in range(pt["c1"])))
        lines.append("~ASCII second run")
    n_line = 0
    if pt["kind"] == "dates":
        curves = curves[:c] + [("DATE", "", "", "date of the run")]
        secs[-1] = lasgen.curve_section(curves)
        if pt["noise"] and pt["noise"][1] == 0:
            lines.append({"hcomment": "# re-logged 2018-05-22 - run 1-2", "comment": "# remark"}[pt["noise"][0]])
    for i in range(r):
        toks = [str(cell(i, j, pt["sign"])) for j in range(c)]
        if pt["kind"] == "dates":
            toks.append("2018-05-%02d" % (i + 1))
        if pt["kind"] == "comma-empty":
            toks[pt["empty"]] = ""
            lines.append(",".join(toks))
        elif pt["kind"] == "wrapped":
            k = 0
            for size in pt["comp"]:
                lines.append(" ".join(toks[k:k + size]))
                k += size
        else:
            lines.append("  ".join(toks))
        n_line += 1
        if pt["noise"] and pt["noise"][1] == n_line:
            lines.append({"blank": "", "comment": "# comment", "icomment": "   # indented comment", "tcomment": "\t# c", "pcomment": "% remark line",
                          "hcomment": "# re-logged 2018-05-22 - run 1-2"}[pt["noise"][0]])
    secs.append(lines)
    if pt.get("follows"):
        secs.append(["~Parameter", lasgen.item_line("P1", "U", "3.5", "a parameter"), lasgen.item_line("P2", "", "x y", "another")])
    return lasgen.render(secs), curves


def check_point(pt):
    from ..core import inputs as _inputs
    _inputs.process_prelude()   # explored in a process that has already read many other files (see core/inputs.py)
    text, curves = build_text(pt)
    d, c, r = pt["d"], pt["c"], pt["r"]
    nontriv = (d != c) or pt["kind"] != "unwrapped" or r >= 19 or bool(pt["noise"])

    def V(clause, expected, observed, sig=None):
        return {"clause": clause, "sig": sig or classify(pt, clause), "witness": {"point": pt, "text": text},
                "expected": expected, "observed": observed, "size": len(text),
                "repro": "import lasio; las=lasio.read(%r, engine=%r); print(las.keys(), las.data)" % (text, pt["engine"])}

    try:
        rkw = {"ignore_data_comments": pt["marker"]} if pt.get("marker") else {}
        if pt["kind"] == "wrapflag" and not pt.get("defaultopt"):
            rkw["use_normal_engine_for_wrapped"] = False
        if pt.get("case"):
            rkw["mnemonic_case"] = pt["case"]
        if pt["kind"] == "dtypes":
            names = [cv[0] for cv in curves]
            rkw["dtypes"] = ({n: float for n in names} if pt["dtypes"] == "dict" else
                             [float] * (len(names) if pt["dtypes"] == "list" else max(len(names) - 1, 1)))
        las = lasio.read(text, engine=pt["engine"], **rkw)
    except Exception as e:
        if pt["kind"] == "dtypes":
            return [], nontriv, "raise(dtypes)", {}, 1
        # the statement defines the outcome for these inputs, so they must read
        return [V("defined-case-raises", "a successful read with %d curves x %d rows" % (max(c, d), r),
                  "%s: %s" % (type(e).__name__, str(e)[:200]))], nontriv, "raise", {}, 1
    vio = []
    cur = list(las.curves)
    lens = [len(np.asarray(x.data)) for x in cur]
    if len(set(lens)) > 1:
        vio.append(V("not-rectangular", "equal lengths", lens))
    want_n = max(c, d, pt.get("c1", 0))
    if pt["kind"] == "dates":
        want_n = c + 1
    if len(cur) != want_n:
        vio.append(V("curve-count", want_n, {"n": len(cur), "keys": las.keys()}))
        return vio, nontriv, "ok", {}, 1
    if lens and lens[0] != r:
        vio.append(V("row-count", r, lens[0]))
        return vio, nontriv, "ok", {}, 1
    casef = {"lower": str.lower, "upper": str.upper}.get(pt.get("case") or "upper", lambda x: x)
    for j in range(d):
        exp = (casef(curves[j][0]),) + tuple(curves[j][1:])
        got = (cur[j].original_mnemonic, cur[j].unit, cur[j].value, cur[j].descr)
        if got != exp:
            vio.append(V("declared-metadata", list(exp), list(got)))
            break
    for j in range(d, max(c, pt.get("c1", 0))):
        if cur[j].original_mnemonic.strip() != "":
            vio.append(V("surplus-column-named", "blank original mnemonic for curve %d" % j, cur[j].original_mnemonic))
            break
    for j in range(want_n):
        col = np.asarray(cur[j].data)
        if pt["kind"] == "dates" and j == c:
            got = [str(x) for x in col.tolist()]
            if got != ["2018-05-%02d" % (i + 1) for i in range(r)]:
                vio.append(V("date-column", ["2018-05-%02d" % (i + 1) for i in range(r)], got))
            break
        if pt["kind"] == "comma-empty" and j == pt["empty"]:
            continue  # what an empty cell becomes is not specified; the other columns must stay in place
        if j < c:
            exp = [float(cell(i, j, pt["sign"])) for i in range(r)]
            try:
                got = [float(x) for x in col.tolist()]
            except Exception:
                got = col.tolist()
            if got != exp:
                vio.append(V("column-binding", {"curve": j, "values": exp}, got))
                break
        else:
            if not (col.dtype.kind == "f" and np.all(np.isnan(col))):
                vio.append(V("missing-column-not-nan", {"curve": j, "values": "all NaN"}, col.tolist()))
                break
    if not vio and d > c and r > 0 and pt["kind"] not in ("twosections", "dates"):
        # the NaN filler of one declared-but-absent curve is that curve's own array: overwriting it in place changes
        # neither its siblings nor what a later read of the same text returns
        try:
            np.asarray(cur[c].data)[...] = 7.0
            for j in range(c + 1, d):
                col = np.asarray(cur[j].data)
                if not np.all(np.isnan(col)):
                    vio.append(V("filler-shared-between-curves", {"curve": j, "values": "all NaN"}, col.tolist()))
                    break
            again = list(lasio.read(text, engine=pt["engine"], **rkw).curves)
            for j in range(c, d):
                col = np.asarray(again[j].data)
                if not (len(col) == r and np.all(np.isnan(col.astype(float)))):
                    vio.append(V("filler-shared-between-reads", {"curve": j, "values": "all NaN"}, col.tolist()))
                    break
            np.asarray(cur[c].data)[...] = np.nan
        except Exception as e:
            vio.append(V("filler-edit-raises", "an in-place edit of a filler column and a re-read succeed", repr(e)))
    if not vio and lens and len(set(lens)) == 1 and pt["kind"] not in ("comma-empty", "dates"):
        try:
            data = las.data
            for j in range(min(c, len(cur))):
                exp = [float(cell(i, j, pt["sign"])) for i in range(r)]
                if [float(x) for x in data[:, j].tolist()] != exp:
                    vio.append(V("data-view-column", {"column": j, "values": exp}, data[:, j].tolist()))
                    break
        except Exception as e:
            vio.append(V("data-view-raises", "las.data is the column stack of the curves", repr(e)))
    return vio, nontriv, "ok", {}, 1


def classify(pt, clause):
    feats = [pt["kind"]]
    if pt["kind"] == "wrapped":
        comp = pt["comp"]
        feats.append("uniform" if len(set(comp)) == 1 else "nonuniform")
    else:
        feats.append("d%sc" % ("<" if pt["d"] < pt["c"] else ">" if pt["d"] > pt["c"] else "="))
    if pt["r"] == 1:
        feats.append("one-row")
    if pt["c"] == 1:
        feats.append("one-col")
    if pt["noise"]:
        feats.append("noise:" + pt["noise"][0])
    if pt["sign"] == "neg":
        feats.append("neg")
    if pt.get("names") == "numeric":
        feats.append("numeric-names")
    if pt.get("follows"):
        feats.append("inner-A")
    if pt.get("marker"):
        feats.append("marker")
    if pt.get("case"):
        feats.append("case=" + pt["case"])
    return "+".join(feats)


e1.install(globals(), unit_size=150, sample_of=lambda pt: {"point": pt, "text": build_text(pt)[0]})
