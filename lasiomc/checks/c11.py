"""C11 - lasio's own output is a fixed point of read -> write.
E1 over (input file, writer configuration); cycles 2..4."""
import lasio

from ..core import canon, e1, inputs, roundtrip

PROPERTY = "C11"
LEVEL = "exploration"
RULE = (
    "inputs = example corpus + generated family (shapes, wrap, DLM) + alias spellings of one depth unit on the index curve vs STRT/STOP/STEP (round 8) + one-step mutations (duplicated / blank / "
    "case-variant mnemonics, unit .1IN, emptied values, lengthened fields) + version shapes (VERS 1.0 / 1.2 / 2.0 / 2.1 / 3.0, duplicated VERS / WRAP lines, WRAP flag in other letter cases over 5 / 7 / 14 curves, values with runs of blanks, ~Other ending in blank lines); every input x every writer configuration "
    "in the k-deviation ball of (version, wrap, fmt, column_fmt, len_numeric_field, spacer, lhs_spacer, data_width, "
    "mnemonics_header, data_section_header), and under mnemonic_case lower/preserve for three configurations: l1=read(x), t1=write(l1), l2=read(t1), t2=write(l2), l3=read(t2) ... up to "
    "4 cycles; canonical content (numeric mode) of cycle n+1 must equal cycle n for n >= 2; inputs whose first read or "
    "first write raises are counted and skipped; non-trivial = input completed at least two cycles"
)
ASSUMPTIONS = [
    "'any input that lasio can read and then write': first read / first write failures are skipped (counted in the evidence)",
    "comparison in numeric mode on original mnemonic, unit, value, description, ~Other and curve data (session suffixes are C13's subject)",
]

CYCLES = 4


def bounds(tier):
    return {"inputs": len(_inputs(tier)), "configurations": len(roundtrip.configs(1 if tier == "quick" else 2)),
            "deviation_bound": 1 if tier == "quick" else 2, "cycles": CYCLES}


_IN = {}


def _alias_unit_inputs():
    """Round 8: index-curve unit and STRT/STOP/STEP units that are different spellings of one depth unit (F/FT/FEET,
    M/METERS, letter case): whichever spelling write() settles on, it has to stay settled from the second cycle on."""
    out = []
    for cu, hu in (("F", "FT"), ("FT", "F"), ("M", "METERS"), ("METERS", "M"), ("m", "M"), ("FEET", "ft"), ("F", "FT/M")):
        out.append(("aliasunits:curve=%s:header=%s" % (cu, hu),
                    "~Version\nVERS. 2.0 : version\nWRAP. NO : wrap\n~Well\nSTRT.%s 1000.0 : start\nSTOP.%s 1001.0 : stop\n"
                    "STEP.%s 0.5 : step\nNULL. -999.25 : null\nCOMP. ACME : company\n~Curve\nDEPT.%s : depth\nGR.GAPI : gamma\n"
                    "~ASCII\n1000.0 10.5\n1000.5 -999.25\n1001.0 30.5\n" % (hu, hu, hu, cu)))
    return out


def _inputs(tier):
    if tier not in _IN:
        _IN[tier] = inputs.all_inputs(tier) + _alias_unit_inputs()
    return _IN[tier]


def points(tier):
    ins = _inputs(tier)
    cfgs = roundtrip.configs(1 if tier == "quick" else 2)
    pts = []
    for i, (name, text) in enumerate(ins):
        big = text.count("\n") > 1000
        for ci, cfg in enumerate(cfgs):
            if big and ci > 0:
                break
            pts.append({"tier": tier, "input": i, "name": name, "cfg": cfg})
        if not big:
            for case in ("lower", "preserve"):
                for cfg in (cfgs[0], dict(cfgs[0], version=1.2), dict(cfgs[0], version=2.0, wrap=True)):
                    pts.append({"tier": tier, "input": i, "name": name, "cfg": cfg, "case": case})
    return pts


def check_point(pt):
    name, text = _inputs(pt["tier"])[pt["input"]]
    cfg = pt["cfg"]
    size = len(text) + 1000 * sum(1 for n, v in roundtrip.W_AXES if cfg.get(n) != v[0])

    l1 = None

    def V(clause, expected, observed, texts=None, diffs=None):
        return {"clause": clause, "sig": classify(name, cfg, clause, observed, l1, diffs),
                "witness": {"point": pt, "input_text": text if len(text) < 8000 else text[:8000] + "...", "written": texts},
                "expected": expected, "observed": observed, "size": size,
                "repro": "import lasio,io; l=lasio.read(%r)\nfor n in range(3):\n s=io.StringIO(); l.write(s, **%r); l=lasio.read(s.getvalue()); print(l.well, l.data)"
                         % (text[:3000], roundtrip.kwargs_for(cfg, 3))}

    try:
        case = pt.get("case", "upper")
        l1 = lasio.read(text, mnemonic_case=case)
        t1 = roundtrip.write_text(l1, cfg)
    except Exception as e:
        return [], None, "skipped:first-read-or-write-raises", {"skipped": 1}, 1
    evals = 2
    prev_tag = None
    t = t1
    written = [t1 if len(t1) < 4000 else t1[:4000] + "..."]
    for cycle in range(2, CYCLES + 1):
        try:
            l = lasio.read(t, mnemonic_case=pt.get("case", "upper"))
        except Exception as e:
            return [V("own-output-unreadable", "read(write(...)) succeeds (cycle %d)" % cycle,
                      "%s: %s" % (type(e).__name__, str(e)[:160]), written)], True, "unreadable", {}, evals
        evals += 1
        cur = roundtrip.tag(l)
        if prev_tag is not None and cur != prev_tag:
            diffs = item_diffs(prev_tag, cur)
            if diffs:
                # one violation per drifting item, each with its own (narrow) discriminator
                vs = []
                for sec, mn, before, after in diffs:
                    v = V("not-a-fixed-point", {"cycle %d equals cycle %d" % (cycle, cycle - 1): [sec, mn, _short(before)]},
                          _short(after), written)
                    v["sig"] = classify_item(cfg, sec, mn, before, after, cur)
                    vs.append(v)
                return vs, True, "drift", {}, evals
            v = V("not-a-fixed-point", "cycle %d equals cycle %d" % (cycle, cycle - 1),
                  canon.diff_tags(prev_tag, cur), written)
            if cfg.get("wrap") is not None and only_one_more_wrap_item(prev_tag, cur):
                v["sig"] = "duplicated-wrap-item-grows"
            return [v], True, "drift", {}, evals
        prev_tag = cur
        if cycle == CYCLES:
            break
        try:
            t = roundtrip.write_text(l, cfg)
        except Exception as e:
            return [V("rewrite-raises", "write succeeds on re-read output (cycle %d)" % cycle,
                      "%s: %s" % (type(e).__name__, str(e)[:160]), written)], True, "rewrite-raise", {}, evals
        evals += 1
        written.append(t if len(t) < 4000 else t[:4000] + "...")
    return [], True, "ok", {}, evals


def item_diffs(tag_a, tag_b):
    """[(section, original mnemonic, item_before, item_after)] for every header item whose tag differs
    (items are (original, unit, value_tag, descr)); None if the structure differs."""
    out = []
    sa, sb = dict(tag_a["sections"]), dict(tag_b["sections"])
    if list(sa) != list(sb):
        return None
    for name in sa:
        a, b = sa[name], sb[name]
        if a[0] != b[0]:
            return None
        if a[0] == "text":
            if a != b:
                out.append((name, "<text>", a, b))
            continue
        if len(a[1]) != len(b[1]):
            return None
        for ia, ib in zip(a[1], b[1]):
            if ia != ib:
                if ia[0] != ib[0]:
                    return None
                out.append((name, ia[0], ia, ib))
    if tag_a.get("curves") != tag_b.get("curves"):
        out.append(("<data>", "", None, None))
    return out


def only_one_more_wrap_item(tag_a, tag_b):
    """Exactly the recorded shape of RC37: ~Version already holds two or more WRAP items and the next cycle has the same
    items plus ONE more WRAP item at the end; every other section and the data are equal."""
    sa, sb = dict(tag_a["sections"]), dict(tag_b["sections"])
    if list(sa) != list(sb) or tag_a.get("curves") != tag_b.get("curves"):
        return False
    for name in sa:
        if name != "Version" and sa[name] != sb[name]:
            return False
    a, b = sa.get("Version"), sb.get("Version")
    if not a or not b or a[0] != b[0] or a[0] == "text":
        return False
    ia, ib = list(a[1]), list(b[1])
    return (len(ib) == len(ia) + 1 and ib[:-1] == ia and str(ib[-1][0]).upper() == "WRAP"
            and sum(1 for it in ia if str(it[0]).upper() == "WRAP") >= 2)


def _index_of(tag):
    try:
        c0 = tag["curves"][0]
        return list(c0[3]) if c0[0] == "f" else None
    except Exception:
        return None


def classify_item(cfg, sec, mn, before, after, cur_tag=None):
    """Reason for one drifting item, only for the recorded known findings; anything else is 'other'."""
    if before is None or sec == "<data>" or mn == "<text>":
        return "other:" + sec
    _, ub, vb, db = before
    _, ua, va, da = after
    coarse = cfg.get("fmt") in ("%.2f", "%.0f", "%g", "%.3e") or cfg.get("column_fmt") == "first"
    if sec == "Well" and mn.upper() in ("STRT", "STOP", "STEP") and coarse and (ub, db) == (ua, da):
        # exactly the recorded shape: the item BECOMES truthful about the (rounded) data of this cycle
        idx = _index_of(cur_tag) if cur_tag is not None else None
        if idx and va[0] == "num":
            want = {"STRT": idx[0], "STOP": idx[-1], "STEP": (idx[1] - idx[0]) if len(idx) > 1 else None}[mn.upper()]
            if want is not None and abs(va[1] - want) <= 1e-5 * max(1.0, abs(want)) + 1e-9:
                return "strt-stop-step-precision"
            if want is None and mn.upper() == "STEP" and va == ("num", 0.0):
                return "strt-stop-step-precision"   # single-sample index: no increment, STEP is refreshed to the empty value (written 0)
        return "other:" + sec
    if len(ub) >= 2 and ((ub[0] == "[" and ub[-1] == "]") or (ub[0] == "(" and ub[-1] == ")")) and ua == ub[1:-1] and (vb, db) == (va, da):
        return "nested-brackets-unit"
    head = ub.split(" ")[0]
    # exactly the recorded shape: the unit (already 'digits 0') stays, only the value goes from '' to the normalised 0
    if head.isdigit() and ub.isascii() and ub == ua and db == da and vb == ("str", "") and va == ("num", 0.0):
        return "numeric-unit-single-blank"
    return "other:" + sec


def _short(item):
    return None if item is None else [str(x)[:60] for x in item]


def classify(name, cfg, clause, observed, l1=None, diffs=None):
    """Narrow discriminators for the known findings; anything else stays 'other:...'."""
    dlm = None
    has_text_blank = False
    if l1 is not None:
        try:
            if "DLM" in l1.version:
                dlm = str(l1.version["DLM"].value).upper()
        except Exception:
            pass
        try:
            for c in l1.curves:
                if c.data.dtype.kind in "US" and any(" " in str(x).strip() for x in c.data):
                    has_text_blank = True
        except Exception:
            pass
    if clause in ("own-output-unreadable", "rewrite-raises") and dlm in ("TAB", "COMMA"):
        return "writer-ignores-dlm=" + dlm
    if clause == "own-output-unreadable" and has_text_blank:
        return "text-sample-with-blank-unquoted"
    return "other:%s:%s" % (name.split(":")[0], cfg.get("fmt"))


e1.install(globals(), unit_size=60, sample_of=lambda pt: {"input": pt["name"], "cfg": pt["cfg"]})
