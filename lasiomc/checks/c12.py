"""C12 - writer options change presentation only, never content (1.2 <-> 2.0
included).  E1 over (input, read case) x every equal-precision writer
configuration within the deviation bound; each output is read back and
compared with the output of the default configuration."""
import itertools

import lasio

from ..core import canon, e1, inputs, roundtrip

PROPERTY = "C12"
LEVEL = "exploration"
RULE = (
    "inputs = example corpus + generated family + one-step mutations + the ~Well version family (items whose "
    "value/description order depends on version and mnemonic, as 1.2 and as 2.0 sources); each input is read with "
    "mnemonic_case upper, preserve and lower; for every writer configuration cfg within k deviations of the default over "
    "(version None/1.2/2.0, wrap None/True/False, len_numeric_field, spacer, lhs_spacer, data_width, mnemonics_header, "
    "data_section_header) at equal numeric precision: canon(read(write(x, cfg))) == canon(read(write(x, cfg0))) in "
    "numeric mode ignoring the VERS and WRAP items; the same object written with one configuration and then another (20 ordered pairs over default / 1.2 / 2.0 / wrap on / wrap off); the WRAP item edited by value between two wrapped writes; non-trivial = a (input, case, cfg) triple whose output text "
    "differs from the default output"
)
ASSUMPTIONS = [
    "inputs whose read or default write raises are skipped (counted)",
    "inputs declaring DLM TAB/COMMA and text samples with blanks are C11's known findings RC25/RC18 and are skipped here",
    "equality with cfg0 for every cfg is equivalent to pairwise equality",
]

SKIP = {("Version", "VERS"), ("Version", "WRAP"), ("Version", "vers"), ("Version", "wrap"), ("Version", "Vers"), ("Version", "Wrap")}


def _inputs(tier):
    if tier not in _IN:
        _IN[tier] = inputs.all_inputs(tier) + inputs.well_version_family()
    return _IN[tier]


_IN = {}


def bounds(tier):
    return {"inputs": len(_inputs(tier)), "configurations": len(roundtrip.configs(2 if tier == "quick" else 3, True)),
            "deviation_bound": 2 if tier == "quick" else 3, "read_cases": ["upper", "preserve", "lower"]}


def points(tier):
    pts = []
    for i, (name, text) in enumerate(_inputs(tier)):
        for case in ("upper", "preserve", "lower"):
            pts.append({"tier": tier, "input": i, "name": name, "case": case})
    return pts


def one(text, case, cfg):
    l = lasio.read(text, mnemonic_case=case)
    t = roundtrip.write_text(l, cfg)
    back = lasio.read(t, mnemonic_case=case)
    return t, roundtrip.tag(back, SKIP)


_PRELUDE = {"done": False}


def write_prelude():
    """Once per process, before the first point: an unrelated object with another NULL value (and a NaN to emit) is written
    with the default configuration.  Nothing the writer remembers from that call may show up in a later output."""
    if _PRELUDE["done"]:
        return
    _PRELUDE["done"] = True
    import io
    import numpy as np
    other = lasio.LASFile()
    other.well["NULL"].value = 12345.0
    other.append_curve("DEPT", np.array([1.0, 2.0, 3.0]), unit="m")
    other.append_curve("X", np.array([np.nan, 5.0, np.nan]))
    for kw in ({}, {"wrap": True}, {"version": 1.2}):
        try:
            other.write(io.StringIO(), **kw)
        except Exception:
            pass


def check_point(pt, only=None):
    write_prelude()
    name, text = _inputs(pt["tier"])[pt["input"]]
    case = pt["case"]
    k = 2 if pt["tier"] == "quick" else 3
    cfgs = roundtrip.configs(k, True)
    if text.count("\n") > 1000:
        cfgs = roundtrip.configs(1, True)
    try:
        l = lasio.read(text, mnemonic_case=case)
        dlm = str(l.version["DLM"].value).upper() if "DLM" in l.version else None
        if dlm in ("TAB", "COMMA"):
            return [], None, "skipped:dlm", {"skipped_dlm": 1}, 1
        if any(c.data.dtype.kind in "US" and any(" " in str(x).strip() for x in c.data) for c in l.curves):
            return [], None, "skipped:text-with-blank", {"skipped_text": 1}, 1
        t0, ref = one(text, case, cfgs[0])
    except Exception as e:
        return [], None, "skipped:read-or-default-write-raises", {"skipped": 1}, 1
    evals = 3
    vio = []
    nontriv = 0
    for ci, cfg in enumerate(cfgs[1:], start=1):
        if only is not None and ci != only:
            continue
        if isinstance(only, str):
            break
        evals += 3
        try:
            t, got = one(text, case, cfg)
        except Exception as e:
            vio.append(V(pt, name, text, cfg, ci, "config-raises", "same content as default output",
                         "%s: %s" % (type(e).__name__, str(e)[:160]), None))
            continue
        if t != t0:
            nontriv += 1
        if got != ref:
            vio.append(V(pt, name, text, cfg, ci, "content-differs", "same content as default output",
                         canon.diff_tags(ref, got), t))
    # the SAME object written with one configuration and then with another: what the second output holds does not
    # depend on what was written before (no layout remembered from the first write)
    if only in (None, "sameobj") or (isinstance(only, str) and only.startswith("sameobj:")):
        keyc = [dict(cfgs[0]), dict(cfgs[0], version=1.2), dict(cfgs[0], version=2.0), dict(cfgs[0], wrap=True), dict(cfgs[0], wrap=False)]
        for ia, ib in itertools.permutations(range(len(keyc)), 2):
            tagab = "sameobj:%d>%d" % (ia, ib)
            if isinstance(only, str) and only.startswith("sameobj:") and only != tagab:
                continue
            try:
                lw = lasio.read(text, mnemonic_case=case)
                roundtrip.write_text(lw, keyc[ia])
                t2 = roundtrip.write_text(lw, keyc[ib])
                got = roundtrip.tag(lasio.read(t2, mnemonic_case=case), SKIP)
                evals += 3
            except Exception as e:
                vio.append(V(pt, name, text, keyc[ib], tagab, "second-config-raises", "same content as default output",
                             "%s: %s" % (type(e).__name__, str(e)[:160]), None))
                continue
            if got != ref:
                vio.append(V(pt, name, text, keyc[ib], tagab, "content-differs-after-earlier-write", "same content as default output",
                             {"first written with": {k: v for k, v in keyc[ia].items() if v != cfgs[0].get(k)}, "diff": canon.diff_tags(ref, got)}, t2))
    # the in-memory WRAP item edited by value between two wrapped writes of the same object: write(wrap=True) decides
    # the layout AND the WRAP item, whatever the item said before
    if only in (None, "wrapedit"):
        for dw in (79, 20):
            cfg = dict(cfgs[0])
            cfg.update({"wrap": True, "data_width": dw})
            try:
                lw = lasio.read(text, mnemonic_case=case)
                roundtrip.write_text(lw, cfg)
                key = next((i.mnemonic for i in lw.version if i.original_mnemonic.upper() == "WRAP"), None)
                if key is None:
                    continue
                lw.version[key] = "NO"
                t2 = roundtrip.write_text(lw, cfg)
                got = roundtrip.tag(lasio.read(t2, mnemonic_case=case), SKIP)
                evals += 3
            except Exception as e:
                vio.append(V(pt, name, text, cfg, "wrapedit", "wrap-item-edit-raises", "same content as default output",
                             "%s: %s" % (type(e).__name__, str(e)[:160]), None))
                continue
            if got != ref:
                vio.append(V(pt, name, text, cfg, "wrapedit", "content-differs-after-wrap-item-edit", "same content as default output",
                             canon.diff_tags(ref, got), t2))
    return e1.compress(vio), ("%s|%s" % (name, case), nontriv), "ok", {}, evals


def V(pt, name, text, cfg, ci, clause, expected, observed, out_text):
    dev = {n: cfg[n] for n, v in roundtrip.W_AXES if cfg.get(n) != v[0]}
    return {"clause": clause, "sig": "%s:%s" % (name.split(":")[0], "+".join(sorted(dev))),
            "witness": {"point": pt, "cfg_no": ci, "cfg": cfg, "input_text": text if len(text) < 8000 else text[:8000] + "...",
                        "output": out_text if out_text is None or len(out_text) < 5000 else out_text[:5000] + "..."},
            "expected": expected, "observed": observed,
            "size": len(text) + 1000 * len(dev),
            "repro": "import lasio,io\nfor kw in ({}, %r):\n l=lasio.read(%r, mnemonic_case=%r); s=io.StringIO(); l.write(s, **kw); b=lasio.read(s.getvalue(), mnemonic_case=%r); print(b.well, b.params, b.data)"
                     % (roundtrip.kwargs_for({k: v for k, v in cfg.items() if k in dev}, 3), text[:3000], pt["case"], pt["case"])}


def replay(witness):
    return check_point(witness["point"], only=witness.get("cfg_no"))[0]


def units(tier, seed):
    _PTS[tier] = points(tier)
    return [{"tier": tier, "range": [i, i + 1]} for i in range(len(_PTS[tier]))]


_PTS = {}


def run_unit(unit):
    tier = unit["tier"]
    if tier not in _PTS:
        _PTS[tier] = points(tier)
    res = {"evals": 0, "nontrivial": 0, "outcomes": {}, "violations": [], "samples": [], "extra": {}}
    for pt in _PTS[tier][unit["range"][0]:unit["range"][1]]:
        vio, nt, oc, counters, evals = check_point(pt)
        res["evals"] += evals
        if nt:
            res["nontrivial"] += nt[1]
        res["outcomes"][oc] = res["outcomes"].get(oc, 0) + 1
        for k, v in counters.items():
            res["extra"][k] = res["extra"].get(k, 0) + v
        res["violations"].extend(vio)
        res["samples"].append({"input": pt["name"], "case": pt["case"]})
    res["violations"] = e1.compress(res["violations"])
    return res
