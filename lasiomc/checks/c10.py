"""C10 - the result is independent of input channel and encoding; reads are pure.
Part 1 (E1): channel x storage encoding x EOL product against the plain-string
reference.  Part 2 (E2): every history of reads, mutations, writes and pickles
up to a depth bound; after each history fresh reads and the module-level tables
must equal references computed in a separate fresh interpreter."""
import copy
import hashlib
import io
import json
import os
import pathlib
import pickle
import shutil
import subprocess
import sys
import tempfile

import numpy as np

import lasio
from lasio import defaults

from ..core import canon, e1

PROPERTY = "C10"
LEVEL = "model_checking"
RULE = (
    "part 1: four texts with non-ASCII letters in mnemonic, unit, value, description and ~Other (general Unicode, Latin-1 subset, wrapped, cp1252's 0x80-0x9F block) x "
    "channel {str path, pathlib.Path, open text file, open file with newline='', StringIO, multi-line string} x storage "
    "{utf-8-sig autodetected, utf-8 autodetected, utf-8 / utf-16 / utf-16-le / utf-16-be / latin-1 / cp1252 with "
    "encoding=} x EOL {LF, CRLF, CR}: strict canonical equality with the plain-string read; part 2: all histories up to "
    "the depth bound over {read(T1|T2|comma-delimited T3|decimal-comma T4) from string / path / with other options / with option objects the caller keeps (dtypes dict, policy lists: they must come back unchanged), mutate a header value / default item / "
    "curve name / data in place / append / delete a curve of an earlier result, write(result, options), LASFile()+"
    "mutate+write, pickle, deepcopy}; after every operation the results it was not aimed at must be unchanged; after every history a fresh read(T1), read(T2), LASFile() and the module tables "
    "(ORDER_DEFINITIONS, READ/NULL policies and substitutions, DEPTH_UNITS, get_default_items()) are compared with "
    "digests computed in separate fresh interpreters (one per observed part, so that no part of the reference can be influenced by another); non-trivial = history containing a mutation or a write"
)
ASSUMPTIONS = [
    "the `encoding` attribute of the result is not part of the statement and is not compared",
    "CR-only line ends are used for files only (str.splitlines would also accept them, but the statement lists them for files)",
    "histories are not pruned by state (hidden aliasing is what is being looked for); 'states' counts distinct visible configurations",
]

T_UNICODE = (
    "~Version\nVERS. 2.0 : version\nWRAP. NO : wrap\n~Well\nSTRT.M 1.0 : start\nSTOP.M 3.0 : stop\nSTEP.M 1.0 : step\n"
    "NULL. -999.25 : null\nWELL. Brønnøysund № 7 — «тест» : well näme\nFLD. 油田 : field\n~Curve\nDEPT.M : depth\nΔT.µs/ft 11 : sonic Δt\n"
    "TEMP.°C : température\n~Parameter\nBHT.°C 35.5 : bottom hole température\nÅÄÖ.å äö : ünïcödé\n~Other\nfree text — ünïcödé ✓\n"
    "~ASCII\n1.0 10.5 20.5\n2.0 -999.25 21.5\n3.0 30.5 -999.25\n"
)
T_LATIN = (
    "~Version\nVERS. 2.0 : version\nWRAP. NO : wrap\n~Well\nSTRT.M 1.0 : start\nSTOP.M 2.0 : stop\nSTEP.M 1.0 : step\n"
    "NULL. -999.25 : null\nWELL. Bohrung Süd ±3 : wéll nàme\n~Curve\nDEPT.M : depth\nTEMP.°C : température\n"
    "~Parameter\nBHT.°C 35.5 : bottom hole température\nÅÄÖ.å äö : éèêë\n~Other\nfree text ½ ñ ÿ\n~ASCII\n1.0 10.5\n2.0 -999.25\n"
)
T_WRAPPED = T_LATIN.replace("WRAP. NO", "WRAP. YES").replace("1.0 10.5\n2.0 -999.25\n", "1.0\n10.5\n2.0\n-999.25\n")
# characters of cp1252's 0x80-0x9F block (not in latin-1): a code page must not be replaced by a "close enough" one
T_CP1252 = T_LATIN.replace("Bohrung Süd ±3", "Bohrung „Süd“ – 3 € ™ Š").replace("free text ½ ñ ÿ", "free text … ‰ œ ž Ÿ ‘x’")
# characters str.splitlines() treats as line boundaries but files and StringIO do not (NEL, VT, FF, FS, LS, PS)
T_EXOTIC = T_LATIN.replace("Bohrung Süd ±3", "Bohrung\x85Süd\x0b3\u2028x").replace("free text ½ ñ ÿ", "free\x0ctext\x1c½\u2029ÿ")
TEXTS = {"unicode": T_UNICODE, "latin": T_LATIN, "latin-wrapped": T_WRAPPED, "cp1252": T_CP1252, "exotic-linebreaks": T_EXOTIC}
# files larger than typical block sizes (4, 8, 16, 64 KiB) filled with 2- and 3-byte characters, at three alignments
for _shift in range(3):
    _body = "\n".join("x" * _shift + ("é€" * 20 + " ") * 6 + "line %d" % k for k in range(320))
    TEXTS["long-unicode-%d" % _shift] = T_UNICODE.replace("free text — ünïcödé ✓", "free text — ünïcödé ✓\n" + _body)

CHANNELS = ["str-path", "pathlib", "text-file", "text-file-newline-empty", "stringio", "string"]
STORAGES = [("utf-8-sig", None), ("utf-8-sig", "utf-8"), ("utf-8-sig", "utf-8-sig"), ("utf-8", None), ("utf-8", "utf-8"), ("utf-16", "utf-16"), ("utf-16-le", "utf-16-le"),
            ("utf-16-be", "utf-16-be"), ("latin-1", "latin-1"), ("cp1252", "cp1252")]
EOLS = ["\n", "\r\n", "\r"]

DEPTH = {"quick": 3, "thorough": 4}


def bounds(tier):
    return {"texts": list(TEXTS), "channels": CHANNELS, "storages": [list(map(str, s)) for s in STORAGES], "eols": ["LF", "CRLF", "CR"],
            "history_depth": DEPTH[tier], "alphabet": [json.dumps(o) for o in alphabet()]}


# ------------------------------------------------------------------ part 1
def channel_points():
    pts = []
    for tname in TEXTS:
        for ch in CHANNELS:
            if ch in ("stringio", "string"):
                for eol in ("\n", "\r\n"):
                    pts.append(["chan", tname, ch, None, None, eol])
                continue
            for codec, enc_arg in STORAGES:
                if tname == "unicode" and codec in ("latin-1", "cp1252"):
                    continue
                if tname == "cp1252" and codec == "latin-1":
                    continue
                if tname == "exotic-linebreaks" and codec in ("latin-1", "cp1252"):
                    continue
                if tname.startswith("long-unicode") and (codec in ("latin-1", "cp1252") or eol == "\r" or ch.startswith("text-file")):
                    continue
                for eol in EOLS:
                    pts.append(["chan", tname, ch, codec, enc_arg, eol])
    return pts


_TMP = {}


def scratch_dir():
    pid = os.getpid()
    if pid not in _TMP:
        out = os.path.join(os.path.dirname(os.path.dirname(os.path.dirname(os.path.abspath(__file__)))), "out")
        os.makedirs(out, exist_ok=True)
        _TMP.clear()
        _TMP[pid] = tempfile.mkdtemp(prefix="c10.", dir=out)
        import atexit
        atexit.register(shutil.rmtree, _TMP[pid], True)
    return _TMP[pid]


_REFTAG = {}


def ref_tag(tname):
    """Reference = the text handed over as a StringIO (no channel discrimination, no decoding involved)."""
    if tname not in _REFTAG:
        try:
            _REFTAG[tname] = canon.las_tag(lasio.read(io.StringIO(TEXTS[tname])), "strict")
        except Exception as e:
            _REFTAG[tname] = ("reference-read-raises", "%s: %s" % (type(e).__name__, str(e)[:120]))
    return _REFTAG[tname]


def check_channel(pt):
    _, tname, ch, codec, enc_arg, eol = pt
    text = TEXTS[tname].replace("\n", eol)
    kwargs = {}
    fobj = None
    try:
        if ch in ("stringio", "string"):
            src = io.StringIO(text) if ch == "stringio" else text
        else:
            path = os.path.join(scratch_dir(), "chan.las")
            with open(path, "wb") as f:
                f.write(text.encode(codec))
            if ch == "str-path":
                src = path
            elif ch == "pathlib":
                src = pathlib.Path(path)
            else:
                enc = codec
                fobj = open(path, "r", encoding=enc, newline="" if ch.endswith("empty") else None)
                src = fobj
            if ch in ("str-path", "pathlib") and enc_arg:
                kwargs["encoding"] = enc_arg
        try:
            las = lasio.read(src, **kwargs)
            got = canon.las_tag(las, "strict")
        except Exception as e:
            return [V1(pt, "channel-read-raises", "same result as the plain string", "%s: %s" % (type(e).__name__, str(e)[:160]))]
    finally:
        if fobj is not None and not fobj.closed:
            fobj.close()
    ref = ref_tag(tname)
    if isinstance(ref, tuple) and ref and ref[0] == "reference-read-raises":
        return [V1(pt, "channel-read-raises", "the reference read (StringIO, LF) succeeds", ref[1])]
    if got != ref:
        return [V1(pt, "channel-result-differs", "same canonical content as read(StringIO of the LF text)", canon.diff_tags(ref, got))]
    return []


def V1(pt, clause, expected, observed):
    return {"clause": clause, "sig": "%s|%s|%s" % (pt[2], pt[3], {"\n": "LF", "\r\n": "CRLF", "\r": "CR"}[pt[5]]),
            "witness": {"point": pt}, "expected": expected, "observed": observed, "size": 1,
            "repro": "text '%s' stored as %s with EOL %r, channel %s, encoding=%r" % (pt[1], pt[3], pt[5], pt[2], pt[4])}


# ------------------------------------------------------------------ part 2
def alphabet():
    ops = [["read", 0], ["read", 1], ["read", 2], ["read", 3], ["read_path", 0], ["read_opts", 1], ["read_shared_opts", 0], ["read_case", 0, "preserve"], ["read_case", 1, "lower"], ["read_write", 0], ["read_write", 1]]
    for which in ("first", "last"):
        ops += [["mut_header", which], ["mut_default", which], ["rename_curve", which], ["edit_data", which],
                ["append_curve", which], ["delete_curve", which], ["mut_sections", which]]
    ops += [["write", "last", 0], ["write", "last", 1], ["write", "first", 2], ["new_mutate"], ["new_write"], ["pickle", "last"],
            ["deepcopy", "first"]]
    return ops


# the two texts of the purity part hold DIFFERENT line shapes under the SAME section names (double dots that belong
# to the mnemonic vs to the description, period-less and colon-less lines, time values, bracketed and numeric units):
# anything remembered from parsing one of them must not leak into parsing the other
_SHAPES_A = ("~Curve\nDEPT.M : depth\nCOND..MS/M : conductivity, dots belong to the mnemonic\nTemp.°C : température\nSPARE.X : declared without a data column\n",
             "~Parameter\nBHT.°C 35.5 : bottom hole température\nTIME.hh:mm 13:45 : Time: logged\nRUN : 3\nPRES.1000 psi 12 : numeric unit\nÅÄÖ.å äö : éèêë\n")
_SHAPES_B = ("~Curve\nDEPT.M : depth\nRES.OHMM : deep.. dots belong to the description\nTEMP.[degC] : température\n",
             "~Parameter\nnote.  no colon here\nWho : a. b. name : x\nDATE. 2020-01-02 14:00:32 : Date: and time\nBHT.°C 35.5 : bottom hole température\n")
_PA = T_LATIN.replace("~Curve\nDEPT.M : depth\nTEMP.°C : température\n", _SHAPES_A[0]).replace(
    "~Parameter\nBHT.°C 35.5 : bottom hole température\nÅÄÖ.å äö : éèêë\n", _SHAPES_A[1]).replace("1.0 10.5\n2.0 -999.25\n", "1.0 5 10.5\n2.0 6 -999.25\n")
_PB = T_WRAPPED.replace("Bohrung", "Zweite Bohrung").replace("~Curve\nDEPT.M : depth\nTEMP.°C : température\n", _SHAPES_B[0]).replace(
    "~Parameter\nBHT.°C 35.5 : bottom hole température\nÅÄÖ.å äö : éèêë\n", _SHAPES_B[1]).replace("1.0\n10.5\n2.0\n-999.25\n", "1.0\n5\n10.5\n2.0\n6\n-999.25\n")
assert _PA != T_LATIN and "COND..MS/M" in _PA and "deep.." in _PB
# a comma-DELIMITED file (DLM COMMA) and a blank-delimited file whose numbers use the comma as DECIMAL mark: the two
# readings of ',' must not leak from one read into a later one
_PC = T_LATIN.replace("WRAP. NO : wrap\n", "WRAP. NO : wrap\nDLM. COMMA : delimiter\n").replace("1.0 10.5\n2.0 -999.25\n", "1.0,10.5\n2.0,-999.25\n3.0,7\n")
_PD = T_LATIN.replace("Bohrung", "Dritte Bohrung").replace("STOP.M 2.0", "STOP.M 2,0").replace("1.0 10.5\n2.0 -999.25\n", "1,0 10,5\n2,0 -999,25\n")
assert "DLM. COMMA" in _PC and "1.0,10.5" in _PC and "1,0 10,5" in _PD
PURE_TEXTS = [_PA, _PB, _PC, _PD]
WRITE_CFGS = [{}, {"version": 1.2, "wrap": True}, {"fmt": "%.2f", "mnemonics_header": True}]
# option OBJECTS that the caller keeps and passes to several reads: a read must not consume or edit them
SHARED_OPTS = {"dtypes": {"DEPT": float, "TEMP": str, "COND.": float, "Temp": str}, "read_policy": ["comma-decimal-mark", "run-on(-)"],
               "null_policy": ["NULL", "(null)", "9999.25", -999.25], "ignore_comments": ["#"]}


def _shared_kwargs():
    return {"dtypes": SHARED_OPTS["dtypes"], "read_policy": SHARED_OPTS["read_policy"], "null_policy": SHARED_OPTS["null_policy"],
            "ignore_comments": tuple(SHARED_OPTS["ignore_comments"])}



def apply_op(results, op, step, tag=None):
    """`tag` is unique per history prefix, so that a value written by one history can never coincide with
    what an earlier history left behind in a shared object."""
    kind = op[0]
    tag = tag if tag is not None else str(step)
    if kind == "read":
        results.append(lasio.read(PURE_TEXTS[op[1]]))
        return True
    if kind == "read_write":
        x = lasio.read(PURE_TEXTS[op[1]])
        x.write(io.StringIO(), wrap=True, version=1.2)
        results.append(x)
        return True
    if kind == "read_path":
        path = os.path.join(scratch_dir(), "pure%d.las" % op[1])
        with open(path, "w", encoding="utf-8") as f:
            f.write(PURE_TEXTS[op[1]])
        results.append(lasio.read(path, encoding="utf-8"))
        return True
    if kind == "read_shared_opts":
        results.append(lasio.read(PURE_TEXTS[op[1]], **_shared_kwargs()))
        return True
    if kind == "read_case":
        results.append(lasio.read(PURE_TEXTS[op[1]], mnemonic_case=op[2]))
        return True
    if kind == "read_opts":
        results.append(lasio.read(PURE_TEXTS[op[1]], mnemonic_case="lower", null_policy="all", engine="normal",
                                  read_policy=["run-on(-)"], ignore_header_errors=True, dtypes={"DEPT": float}))
        return True
    if kind == "new_mutate":
        x = lasio.LASFile()
        x.well["WELL"].value = "mutated default %s" % tag
        x.well["STRT"].unit = "XX"
        x.version["VERS"].value = 1.2
        x.version["WRAP"].descr = "changed"
        x.params.append(lasio.HeaderItem("NEWP", "u", step, "added"))
        x.curves.append(lasio.CurveItem("NEWC", "u", "", "added", np.array([1.0, 2.0])))
        x.other = "changed other"
        results.append(x)
        return True
    if kind == "new_write":
        x = lasio.LASFile()
        x.append_curve("DEPT", np.array([5.0, 6.0, 7.5]), unit="ft")
        x.append_curve("Q", np.array([np.nan, 1.0, 2.0]))
        x.write(io.StringIO(), version=1.2, wrap=True)
        results.append(x)
        return True
    if not results:
        return False
    las = results[0] if op[1] == "first" else results[-1]
    if kind == "mut_header":
        las.well["WELL"].value = "MUTATED %s" % tag
        las.well["NULL"].value = 12345
        las.version["WRAP"].value = "YES"
        list.__getitem__(las.params, 0).descr = "mutated"
    elif kind == "mut_default":
        for it in las.well:
            it.unit = "ZZ"
        for it in las.version:
            it.descr = "mutated %s" % tag
    elif kind == "mut_sections":
        las.sections["Well"].append(lasio.HeaderItem("EXTRA", "", step, "extra"))
        del las.sections["Version"][0]
        las.sections["Other"] = "replaced"
        las.sections["Custom"] = lasio.SectionItems([lasio.HeaderItem("C", "", 1, "c")])
    elif kind == "rename_curve":
        if not len(las.curves):
            return False
        list.__getitem__(las.curves, 0).mnemonic = "RENAMED%s" % tag
        las.curves.assign_duplicate_suffixes()
    elif kind == "edit_data":
        if not len(las.curves) or not len(las.curves[0].data):
            return False
        for c in las.curves:
            if np.asarray(c.data).dtype.kind == "f":
                c.data[...] = 777.0 + step
        if las.index_initial is not None:
            las.index_initial[...] = -1.0
    elif kind == "append_curve":
        n = len(las.curves[0].data) if len(las.curves) else 2
        las.append_curve("APP%d" % step, np.arange(n, dtype=float))
    elif kind == "delete_curve":
        if not len(las.curves):
            return False
        las.delete_curve(ix=0)
    elif kind == "write":
        try:
            las.write(io.StringIO(), **WRITE_CFGS[op[2]])
        except Exception:
            return False  # an earlier mutation may have made the object unwritable: not this property's concern
    elif kind == "pickle":
        results.append(pickle.loads(pickle.dumps(las)))
    elif kind == "deepcopy":
        results.append(copy.deepcopy(las))
    return True


CREATING = ("read", "read_path", "read_opts", "read_shared_opts", "read_case", "read_write", "new_mutate", "new_write", "pickle", "deepcopy")


def _rsnap(las):
    return canon.las_tag(las, "strict")


def module_snapshot():
    parts = []
    for name in ("ORDER_DEFINITIONS", "READ_POLICIES", "READ_SUBS", "NULL_POLICIES", "NULL_SUBS", "DEPTH_UNITS", "HYPHEN_SUBS"):
        parts.append((name, repr(getattr(defaults, name))))
    d = defaults.get_default_items()
    for k in ("Version", "Well", "Curves", "Parameter"):
        parts.append((k, repr(canon.section_tag(d[k], "strict"))))
    parts.append(("Other", repr(d["Other"])))
    return parts


OBS_PARTS = ["mod", "opts", "read0", "read1", "read2", "read3", "read_shared", "read_preserve", "read_lower", "new", "write0"]


def observe(only=None):
    """What a user would see after the history: module tables, fresh reads, a fresh LASFile.
    `only` restricts the observation to one part (the reference computes every part in its own interpreter, so
    that no part of the reference can be influenced by another part)."""
    obs = {}
    if only in (None, "mod"):
        for k, v in module_snapshot():
            obs["mod:" + k] = v
    if only in (None, "opts"):
        obs["opts"] = repr(sorted((k, repr(v)) for k, v in SHARED_OPTS.items()))
    if only in (None, "read_shared"):
        try:
            obs["read_shared"] = repr(canon.las_tag(lasio.read(PURE_TEXTS[0], **_shared_kwargs()), "strict"))
        except Exception as e:
            obs["read_shared"] = "raises %s: %s" % (type(e).__name__, str(e)[:200])
        obs["opts_after_read"] = repr(sorted((k, repr(v)) for k, v in SHARED_OPTS.items()))
    for i, t in enumerate(PURE_TEXTS):
        if only not in (None, "read%d" % i):
            continue
        try:
            obs["read%d" % i] = repr(canon.las_tag(lasio.read(t), "strict"))
        except Exception as e:
            obs["read%d" % i] = "raises %s: %s" % (type(e).__name__, str(e)[:200])
    # the same texts under the other mnemonic_case options (after the default reads above, when all parts are observed)
    for case in ("preserve", "lower"):
        if only in (None, "read_" + case):
            for i, t in enumerate(PURE_TEXTS[:2]):
                try:
                    obs["read%d_%s" % (i, case)] = repr(canon.las_tag(lasio.read(t, mnemonic_case=case), "strict"))
                except Exception as e:
                    obs["read%d_%s" % (i, case)] = "raises %s: %s" % (type(e).__name__, str(e)[:200])
    if only in (None, "new"):
        f = lasio.LASFile()
        obs["new"] = repr(canon.las_tag(f, "strict", data=False))
    if only in (None, "write0"):
        try:
            s = io.StringIO()
            g = lasio.read(PURE_TEXTS[0])
            g.write(s)
            obs["write0"] = s.getvalue()
        except Exception as e:
            obs["write0"] = "raises %s: %s" % (type(e).__name__, str(e)[:200])
    return obs


def digest(obs):
    return {k: hashlib.sha1(v.encode("utf-8", "backslashreplace")).hexdigest() for k, v in obs.items()}


def reference_digest():
    """Every part computed in its own fresh interpreter (no history at all, not even the other parts)."""
    repo = os.path.realpath(os.environ.get("VERIF_REPO", "/repo"))
    root = os.path.dirname(os.path.dirname(os.path.dirname(os.path.abspath(__file__))))
    procs = []
    for part in OBS_PARTS:
        code = ("import sys, json, logging; sys.path.insert(0, %r); sys.path.insert(0, %r); logging.disable(logging.CRITICAL);"
                "from lasiomc.checks import c10; print('DIGEST' + json.dumps(c10.digest(c10.observe(%r))))") % (root, repo, part)
        procs.append(subprocess.Popen([sys.executable, "-c", code], stdout=subprocess.PIPE, stderr=subprocess.PIPE, text=True))
    ref = {}
    for part, p in zip(OBS_PARTS, procs):
        out, err = p.communicate(timeout=300)
        got = None
        for line in out.splitlines():
            if line.startswith("DIGEST"):
                got = json.loads(line[6:])
        if got is None:
            raise RuntimeError("reference interpreter failed (%s): %s" % (part, err[-500:]))
        ref.update(got)
    return ref


_REF = {}


def check_history(history, ref):
    results = []
    applied = []
    snaps = []  # canonical snapshot of every result as of the last operation that was aimed at it
    for step, op in enumerate(history):
        n_before = len(results)
        target = None
        if op[0] not in CREATING and results:
            target = 0 if op[1] == "first" else len(results) - 1
        try:
            import zlib
            tag = "%d.%08x" % (step, zlib.crc32(json.dumps(history[:step + 1]).encode()))
            ok = apply_op(results, op, step, tag)
        except Exception as e:
            return [], None, "op-raises"  # operations on mutated objects may legitimately fail
        if not ok:
            return [], None, "n/a"
        applied.append(op)
        # results the operation was not aimed at must not have changed (objects returned by earlier reads are independent)
        for i in range(n_before):
            if i == target:
                continue
            now = _rsnap(results[i])
            if now != snaps[i]:
                return [V2(history[:step + 1], "earlier-result-changed", "result #%d untouched by %r" % (i, op),
                           canon.diff_tags(snaps[i], now), "frame")], None, "violation"
        if target is not None:
            snaps[target] = _rsnap(results[target])
        for i in range(n_before, len(results)):
            snaps.append(_rsnap(results[i]))
    try:
        got = digest(observe())
    except Exception as e:
        return [V2(history, "observation-raises", "fresh reads succeed", "%s: %s" % (type(e).__name__, str(e)[:160]), "raise")], None, "violation"
    bad = sorted(k for k in ref if got.get(k) != ref[k])
    if bad:
        return [V2(history, "not-pure", "observations equal to a fresh interpreter's", {"differing": bad}, ",".join(b.split(":")[0] for b in bad))], None, "violation"
    vis = hashlib.blake2b(repr([repr(canon.las_tag(r, "strict")) for r in results]).encode("utf-8", "backslashreplace"), digest_size=8).hexdigest()
    return [], vis, "ok"


def V2(history, clause, expected, observed, feat):
    return {"clause": clause, "sig": "last-op=%s|%s" % (history[-1][0] if history else "none", feat), "witness": {"history": history},
            "expected": expected, "observed": observed, "size": len(history),
            "repro": "in one interpreter run the operations %r (see lasiomc.checks.c10.apply_op), then lasio.read(text) / lasio.LASFile()" % (history,)}


# ------------------------------------------------------------------ plumbing
def units(tier, seed):
    _REF["digest"] = reference_digest()
    us = [{"kind": "chan", "range": [i, i + 40]} for i in range(0, len(channel_points()), 40)]
    for op in alphabet():
        us.append({"kind": "hist", "first": op, "depth": DEPTH[tier]})
    us.append({"kind": "hist0"})
    return us


def _cleanup_scratch():
    d = _TMP.pop(os.getpid(), None)
    if d:
        shutil.rmtree(d, ignore_errors=True)


def _chan_unit(rng):
    res = {"evals": 0, "nontrivial": 0, "outcomes": {}, "violations": [], "samples": [], "extra": {},
           "states": set(), "transitions": 0, "traces": 0, "max_depth": 0}
    pts = channel_points()[rng[0]:rng[1]]
    for pt in pts:
        vio = check_channel(pt)
        res["evals"] += 1
        res["extra"]["channel_reads"] = res["extra"].get("channel_reads", 0) + 1
        res["outcomes"]["chan:" + ("violation" if vio else "ok")] = res["outcomes"].get("chan:" + ("violation" if vio else "ok"), 0) + 1
        res["violations"].extend(vio)
    if pts:
        res["samples"].append({"channel_point": pts[0]})
    res["violations"] = e1.compress(res["violations"])
    _cleanup_scratch()
    return res


def _process_queue(queue, depth, ref):
    """Runs histories from the queue (breadth first) in THIS process until the first violation: after a
    violation the process may carry the damage, so the caller continues the rest of the queue in a fresh fork."""
    alpha = alphabet()
    out = {"evals": 0, "ok": 0, "nontriv": 0, "outcomes": {}, "violations": [], "states": set(), "max_depth": 0}
    queue = list(queue)
    i = 0
    while i < len(queue):
        hist = queue[i]
        i += 1
        vio, vis, oc = check_history(hist, ref)
        out["evals"] += 1
        out["outcomes"]["hist:" + oc] = out["outcomes"].get("hist:" + oc, 0) + 1
        if vio:
            out["violations"].extend(vio)
            break
        if oc == "ok":
            out["states"].add(vis)
            out["max_depth"] = max(out["max_depth"], len(hist))
            if any(o[0] not in ("read", "read_path", "read_opts", "read_shared_opts", "read_case") for o in hist):
                out["nontriv"] += 1
            if len(hist) < depth:
                for op in alpha:
                    queue.append(hist + [op])
    _cleanup_scratch()
    return out, queue[i:]


def run_unit(unit):
    from ..core import isolate
    res = {"evals": 0, "nontrivial": 0, "outcomes": {}, "violations": [], "samples": [], "extra": {},
           "states": set(), "transitions": 0, "traces": 0, "max_depth": 0}
    if unit["kind"] == "chan":
        return isolate.call(_chan_unit, unit["range"])
    ref = _REF.get("digest") or reference_digest()
    _REF["digest"] = ref
    if unit["kind"] == "hist0":
        queue, depth = [[]], 0
    else:
        queue, depth = [[unit["first"]]], unit["depth"]
    forks = 0
    while queue:
        out, queue = isolate.call(_process_queue, queue, depth, ref)
        forks += 1
        res["evals"] += out["evals"]
        res["transitions"] += out["evals"]
        res["traces"] += out["evals"]
        res["nontrivial"] += out["nontriv"]
        res["states"] |= out["states"]
        res["max_depth"] = max(res["max_depth"], out["max_depth"])
        for k, v in out["outcomes"].items():
            res["outcomes"][k] = res["outcomes"].get(k, 0) + v
        res["violations"].extend(out["violations"])
    res["extra"]["fresh_processes"] = forks
    if unit["kind"] == "hist":
        alpha = alphabet()
        res["samples"].append({"history_sample": [unit["first"]] + ([alpha[3], alpha[5]] if depth >= 3 else [])})
    res["violations"] = e1.compress(res["violations"])
    return res


def replay(witness):
    if "point" in witness:
        return check_channel(witness["point"])
    return check_history(witness["history"], reference_digest())[0]
