"""C15 - section lookup by key, attribute, membership and get() always agree.
E2: sections are built by every operation history up to a depth bound; in each
distinct state every probe key is tried through every access path and compared
with 'first item whose session mnemonic equals k under the section's comparison'."""
import hashlib
import keyword

import numpy as np

from lasio import CurveItem, HeaderItem, SectionItems

from ..core import e1
from . import c13

PROPERTY = "C15"
LEVEL = "model_checking"
RULE = (
    "states = sections built by histories of append(n) / insert(0, n) / del[0] / del[-1] with n in {A, a, B, '', 'A:1', "
    "'1', 'count', 'Vsh'} from 4 roots (empty with case-insensitive comparison off/on, sections read with mnemonic_case "
    "preserve/upper), deduplicated by (comparison mode, (session, original) per item); in every state each probe key "
    "{A, a, B, b, '', UNKNOWN, unknown, '1', 'A:1', 'a:1', 'A:2', Z, count, COUNT} is tried through k in s, s[k], "
    "getattr, get, get(add=True), s[k] = plain value, del s[k]; integers {0, -1, len, -len-1} and four slices are "
    "compared with list indexing; every destructive probe runs on a freshly rebuilt section; a probe is one transition; "
    "non-trivial = state with >= 1 item"
)
ASSUMPTIONS = [
    "attribute access is specified only for identifier-like names that Python routes to __getattr__ (not list methods such as count/index/append)",
    "reference semantics: first item whose session mnemonic equals the key, compared case-insensitively iff the section was read with case normalisation",
]

NAMES = ["A", "a", "B", "", "A:1", "1", "count", "Vsh", "_B"]
PROBES = ["A", "a", "B", "b", "", "UNKNOWN", "unknown", "1", "A:1", "a:1", "A:2", "Z", "count", "COUNT", "Vsh", "VSH", "vsh", "_B", "_b", "__B"]
DEPTH = {"quick": 3, "thorough": 5}
ROOTS = ["empty", "empty-ci", "read-preserve", "read-upper", "read-upper-emptyP", "read-lower-emptyP", "read-preserve-emptyP",
         "read-upper-pickled", "read-upper-deepcopied", "read-curves", "read-curves-pickled",
         # sections of a file whose titles follow the LAS 3.0 style (~Log_Parameter -> params, ~Log_Definition -> curves, a custom
         # ~Tops_Definition section), read with case normalisation
         "read3-upper-params", "read3-lower-curves", "read3-upper-custom", "read3-preserve-params"]
# whether the section compares case-insensitively follows from how it was made, not from the object's own flag
ROOT_CI = {"empty": False, "empty-ci": True, "read-preserve": False, "read-upper": True,
           "read-upper-emptyP": True, "read-lower-emptyP": True, "read-preserve-emptyP": False,
           "read-upper-pickled": True, "read-upper-deepcopied": True, "read-curves": True, "read-curves-pickled": True,
           "read3-upper-params": True, "read3-lower-curves": True, "read3-upper-custom": True, "read3-preserve-params": False}
LAS3_FILE = ("~Version\nVERS. 3.0 : v\nWRAP. NO : w\nDLM. COMMA : d\n~Well\nSTRT.M 1 : s\nSTOP.M 2 : s\nSTEP.M 1 : s\nNULL. -999.25 : n\n"
             "~Log_Parameter\nA.U 1 : first\na.U 2 : second\nB. 3 : third\n~Log_Definition\nD.M : depth\nA. : a one\nb. : b\n"
             "~Tops_Definition\nA. : top a\nVsh. : top vsh\n~Log_Data | Log_Definition\n1,2,3\n2,3,4\n")
EMPTY_P_FILE = ("~V\nVERS. 2.0 :\nWRAP. NO :\n~W\nSTRT.M 1 :\nSTOP.M 2 :\nSTEP.M 1 :\nNULL. -999.25 :\n~P\n# nothing here\n\n"
                "~C\nD.M : depth\n~A\n1\n2\n")
LIST_ATTRS = set(dir(list)) | set(dir(SectionItems))


def bounds(tier):
    return {"max_depth": DEPTH[tier], "names": NAMES, "probe_keys": PROBES, "roots": ROOTS,
            "int_keys": "0, -1, len, -len-1", "slices": "[:], [1:], [:-1], [::2]"}


def alphabet(n):
    ops = [["append", nm] for nm in NAMES] + [["insert0", nm] for nm in ("A", "", "a")]
    # items whose unit, value, description (and data) are identical to each other: only their position tells them apart
    ops += [["append_twin", "A"], ["append_twin", ""]]
    if n:
        ops += [["del0"], ["dellast"]]
    return ops


_EMPTY = {}
_READ3 = {}


def _root(root):
    if root.endswith("-emptyP"):
        if root not in _EMPTY:
            import lasio
            # read once per process; the comparison mode of the (empty) section is whatever the reader gave it
            _EMPTY[root] = bool(lasio.read(EMPTY_P_FILE, mnemonic_case=root.split("-")[1]).params.mnemonic_transforms)
        sec = SectionItems()
        sec.mnemonic_transforms = _EMPTY[root]
        return sec, None, HeaderItem
    if root.startswith("read3-"):
        # read once per process, then cloned through the public constructors (as C13 does for its read roots)
        if root not in _READ3:
            import lasio
            _, case, which = root.split("-")
            las = lasio.read(LAS3_FILE, mnemonic_case=case)
            sec0 = las.params if which == "params" else (las.curves if which == "curves" else las.sections["Tops_Definition"])
            _READ3[root] = (bool(sec0.mnemonic_transforms),
                            [(type(i), i.original_mnemonic, i.unit, i.value, i.descr, getattr(i, "data", None), i.mnemonic) for i in sec0])
        ci0, recs = _READ3[root]
        sec = SectionItems()
        sec.mnemonic_transforms = ci0
        factory = HeaderItem
        for (typ, orig, unit, value, descr, data, session) in recs:
            it = CurveItem(orig, unit, value, descr, np.array(data)) if typ is CurveItem else HeaderItem(orig, unit, value, descr)
            list.append(sec, it)
            it.set_session_mnemonic_only(session)
            factory = typ
        return sec, None, factory
    if root.endswith("-pickled") or root.endswith("-deepcopied"):
        import copy
        import pickle
        sec, las, factory = c13.make_root(root.rsplit("-", 1)[0])
        # the section as it comes out of a copy: lookups must keep working on copies too
        sec = pickle.loads(pickle.dumps(sec)) if root.endswith("-pickled") else copy.deepcopy(sec)
        return sec, None, factory
    return c13.make_root(root)


def build(root, history):
    section, las, factory = _root(root)
    for step, op in enumerate(history):
        if op[0] == "append":
            section.append(c13.new_item(factory, op[1], step))
        elif op[0] == "insert0":
            section.insert(0, c13.new_item(factory, op[1], step))
        elif op[0] == "append_twin":
            it = c13.new_item(factory, op[1], 0)
            it.value = "twin"
            section.append(it)
        elif op[0] == "del0":
            del section[0]
        elif op[0] == "dellast":
            del section[-1]
    return section


def _data(i):
    d = getattr(i, "data", None)
    return None if d is None else (str(np.asarray(d).dtype), np.asarray(d).tolist().__repr__())


def snap(section):
    return [(id(i), i.mnemonic, i.original_mnemonic, i.unit, repr(i.value), i.descr, _data(i)) for i in section]


def content(section):
    return [(i.mnemonic, i.original_mnemonic, i.unit, repr(i.value), i.descr, _data(i)) for i in section]


def probe_state(root, history):
    """All probes in the state reached by history; returns (violations, n_probes)."""
    vio = []
    n = 0
    base = build(root, history)
    ci = ROOT_CI[root]
    keys = [i.mnemonic for i in base]
    L = len(base)

    def V(clause, key, expected, observed):
        return {"clause": clause, "sig": "key=%r|ci=%s" % (key, ci), "witness": {"root": root, "history": history, "key": key},
                "expected": expected, "observed": observed, "size": len(history),
                "repro": "section built by %r from root %s; probe key %r" % (history, root, key)}

    # a plain attribute stored on ANOTHER (empty) section under each probe name: sections do not share attribute state
    other = SectionItems()
    for k in PROBES:
        if k.isidentifier() and not keyword.iskeyword(k) and k not in LIST_ATTRS:
            setattr(other, k, "plain attribute of another section")
    for k in PROBES:
        pos = c13.first_match(keys, k, ci)
        # membership
        n += 1
        s = build(root, history)
        try:
            isin = k in s
        except Exception as e:
            isin = repr(e)
        if isin != (pos is not None):
            vio.append(V("contains", k, pos is not None, isin))
        # item access
        n += 1
        try:
            got = s[k]
            ok = pos is not None and got is list.__getitem__(s, pos)
            if not ok:
                vio.append(V("getitem", k, "item %s" % pos if pos is not None else "KeyError", "item %r" % getattr(got, "mnemonic", got)))
        except KeyError:
            if pos is not None:
                vio.append(V("getitem", k, "item %d" % pos, "KeyError"))
        except Exception as e:
            vio.append(V("getitem", k, "item or KeyError", repr(e)))
        # attribute access
        if k.isidentifier() and not keyword.iskeyword(k) and k not in LIST_ATTRS:
            n += 1
            try:
                got = getattr(s, k)
                if pos is None or got is not list.__getitem__(s, pos):
                    vio.append(V("getattr", k, "item %s" % pos if pos is not None else "AttributeError", repr(got)[:80]))
            except AttributeError:
                if pos is not None:
                    vio.append(V("getattr", k, "item %d" % pos, "AttributeError"))
            except Exception as e:
                vio.append(V("getattr", k, "item or AttributeError", repr(e)))
        # get() without add: never changes the section
        n += 1
        before = snap(s)
        try:
            got = s.get(k)
            if pos is not None and got is not list.__getitem__(s, pos):
                vio.append(V("get", k, "existing item %d" % pos, repr(got)[:80]))
            if pos is None and any(got is it for it in s):
                vio.append(V("get", k, "a fresh item", "an item of the section"))
        except Exception as e:
            vio.append(V("get", k, "item", repr(e)))
        if snap(s) != before:
            vio.append(V("get-mutates", k, "section unchanged", content(s)))
        # get(add=True): length changes by exactly 0 (present) / 1 (absent)
        n += 1
        s = build(root, history)
        try:
            got = s.get(k, add=True)
            want_len = L + (0 if pos is not None else 1)
            if len(s) != want_len:
                vio.append(V("get-add-length", k, want_len, len(s)))
            elif pos is None and list.__getitem__(s, len(s) - 1) is not got:
                vio.append(V("get-add-appends-returned-item", k, "returned item is the appended one", "other"))
            elif content(s)[:L] != [c for c in content(build(root, history))][:L] and pos is not None:
                vio.append(V("get-add-mutates", k, "section unchanged", content(s)))
        except Exception as e:
            vio.append(V("get-add", k, "item", repr(e)))
        # get(k, default=<an item that lives in another section>, add=True), then a plain-value assignment through s:
        # the other section (its item, names and values) is not touched by anything done through s
        if k.strip():
            n += 1
            s = build(root, history)
            donor = SectionItems()
            donor.mnemonic_transforms = ci
            ditem = c13.new_item(CurveItem if any(isinstance(i, CurveItem) for i in s) else HeaderItem, k, 99)
            donor.append(ditem)
            donor.append(c13.new_item(type(ditem), k, 98))   # the donor holds the name twice (k:1, k:2)
            dsnap = snap(donor)
            try:
                got = s.get(k, default=ditem, add=True)
                s[got.mnemonic] = "NEW VALUE"
                if snap(donor) != dsnap:
                    vio.append(V("get-add-touches-other-section", k, [d[1:5] for d in dsnap], [d[1:5] for d in snap(donor)]))
            except Exception as e:
                vio.append(V("get-add-default-item", k, "item appended or found", repr(e)))
        # s[k] = plain value: only that item's value changes
        n += 1
        s = build(root, history)
        ref = content(s)
        try:
            s[k] = "NEW VALUE"
            if pos is None:
                vio.append(V("set-value-absent", k, "KeyError", "accepted"))
            else:
                want = list(ref)
                m, o, u, v, d, dd = want[pos]
                want[pos] = (m, o, u, repr("NEW VALUE"), d, dd)
                if content(s) != want:
                    vio.append(V("set-value", k, want, content(s)))
        except KeyError:
            if pos is not None:
                vio.append(V("set-value", k, "value of item %d set" % pos, "KeyError"))
        except Exception as e:
            vio.append(V("set-value", k, "value set or KeyError", repr(e)))
        # s.k = plain value (attribute form of the same assignment) for a key that is present
        if pos is not None and k.isidentifier() and not keyword.iskeyword(k) and k not in LIST_ATTRS:
            n += 1
            s = build(root, history)
            ref = content(s)
            try:
                setattr(s, k, "NEW VALUE")
                want = list(ref)
                m, o, u, v, d, dd = want[pos]
                want[pos] = (m, o, u, repr("NEW VALUE"), d, dd)
                if content(s) != want:
                    vio.append(V("setattr-value", k, want, content(s)))
            except Exception as e:
                vio.append(V("setattr-value", k, "value of item %d set" % pos, repr(e)))
        # del s[k]
        n += 1
        s = build(root, history)
        ref = snap(s)
        try:
            del s[k]
            if pos is None:
                vio.append(V("del-absent", k, "KeyError", content(s)))
            else:
                want = ref[:pos] + ref[pos + 1:]
                if snap(s) != want:
                    vio.append(V("del-key", k, [w[1] for w in want], [w[1] for w in snap(s)]))
        except KeyError:
            if pos is not None:
                vio.append(V("del-key", k, "item %d removed" % pos, "KeyError"))
            elif snap(s) != ref:
                vio.append(V("del-absent-mutates", k, "unchanged", content(s)))
        except Exception as e:
            vio.append(V("del-key", k, "removed or KeyError", repr(e)))
    # integers
    for i in (0, -1, L, -L - 1):
        n += 1
        s = build(root, history)
        ref = list(list.__iter__(s))
        try:
            want = ref[i]
        except IndexError:
            want = IndexError
        try:
            got = s[i]
            if want is IndexError or got is not want:
                vio.append(V("int-getitem", i, "list semantics", repr(got)[:60]))
        except IndexError:
            if want is not IndexError:
                vio.append(V("int-getitem", i, "item", "IndexError"))
        except Exception as e:
            vio.append(V("int-getitem", i, "list semantics", repr(e)))
        n += 1
        s2 = build(root, history)
        ref2 = snap(s2)
        try:
            del s2[i]
            if want is IndexError:
                vio.append(V("int-del", i, "IndexError", content(s2)))
            else:
                idx = i if i >= 0 else L + i
                if snap(s2) != ref2[:idx] + ref2[idx + 1:]:
                    vio.append(V("int-del", i, "item %d removed, order kept" % idx, [c[0] for c in content(s2)]))
        except IndexError:
            if want is not IndexError:
                vio.append(V("int-del", i, "removed", "IndexError"))
        except Exception as e:
            vio.append(V("int-del", i, "list semantics", repr(e)))
    # slices
    s = build(root, history)
    ref = list(list.__iter__(s))
    for sl, name in ((slice(None), "[:]"), (slice(1, None), "[1:]"), (slice(None, -1), "[:-1]"), (slice(None, None, 2), "[::2]"),
                     (slice(None, None, -1), "[::-1]"), (slice(2, None), "[2:]")):
        n += 1
        before = snap(s)
        want_names = [i.mnemonic for i in ref[sl]]
        try:
            got = s[sl]
            if len(got) != len(ref[sl]) or any(a is not b for a, b in zip(list.__iter__(got), ref[sl])):
                vio.append(V("slice", name, want_names, [i.mnemonic for i in got]))
        except Exception as e:
            vio.append(V("slice", name, "list semantics", repr(e)))
        if snap(s) != before:
            vio.append(V("slice-mutates-section", name, [b[1] for b in before], [b[1] for b in snap(s)]))
    return vio, n


def canon_state(section):
    return (bool(section.mnemonic_transforms), tuple((i.mnemonic, i.original_mnemonic, i.value == "twin") for i in section))


def units(tier, seed):
    us = []
    for root in ROOTS:
        sec = build(root, [])
        us.append({"root": root, "tier": tier, "first": None})
        for op in alphabet(len(sec)):
            us.append({"root": root, "tier": tier, "first": op})
    return us


def run_unit(unit):
    root, tier = unit["root"], unit["tier"]
    depth = DEPTH[tier]
    res = {"evals": 0, "nontrivial": set(), "outcomes": {}, "violations": [], "samples": [],
           "states": set(), "transitions": 0, "traces": 0, "max_depth": 0}
    seen = set()

    def h8(x):
        return hashlib.blake2b(repr(x).encode(), digest_size=8).hexdigest()

    def visit(history):
        sec = build(root, history)
        key = canon_state(sec)
        if key in seen or len(sec) > 5:
            return False
        seen.add(key)
        vio, n = probe_state(root, history)
        res["transitions"] += n
        res["evals"] += n
        res["traces"] += 1
        res["violations"].extend(vio)
        res["outcomes"]["state:" + ("violation" if vio else "ok")] = res["outcomes"].get("state:" + ("violation" if vio else "ok"), 0) + 1
        if len(sec):
            res["nontrivial"].add(h8(key))
        return True

    if unit["first"] is None:
        visit([])
        res["states"] = {h8(k) for k in seen}
        res["samples"].append({"root": root, "history": []})
        return res
    frontier = []
    if visit([unit["first"]]):
        frontier.append([unit["first"]])
        res["max_depth"] = 1
    for d in range(2, depth + 1):
        nxt = []
        for hist in frontier:
            sec = build(root, hist)
            for op in alphabet(len(sec)):
                h2 = hist + [op]
                if visit(h2):
                    nxt.append(h2)
        if frontier:
            res["max_depth"] = d
        frontier = nxt
    res["states"] = {h8(k) for k in seen}
    if frontier:
        res["samples"].append({"root": root, "history": frontier[0]})
    res["violations"] = e1.compress(res["violations"])
    return res


def replay(witness):
    vio, _ = probe_state(witness["root"], witness["history"])
    return [v for v in vio if v["witness"]["key"] == witness["key"]]
