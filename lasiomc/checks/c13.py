"""C13 - duplicate and blank mnemonics: unique session names, originals
preserved.  E2: BFS over operation histories on real SectionItems (directly and
through LASFile.curves), invariants I1..I6 in every state."""
import hashlib
import io
import keyword

import numpy as np

import lasio
from lasio import CurveItem, HeaderItem, SectionItems

from ..core import e1

PROPERTY = "C13"
LEVEL = "model_checking"
RULE = (
    "(as built, rounds 4-5: before every operation each name is looked up through every access path; removal also through pop and LASFile.delete_curve; names no item wears any more must raise KeyError) "
    "BFS over histories of append(n), insert(pos, n), del[0], del[-1], del[key], set_item(key, item), rename + "
    "assign_duplicate_suffixes() with names in {A, a, B, '', 'A:1', 'A:2', UNKNOWN}, from 7 roots (empty section with "
    "case-insensitive comparison off/on, LASFile.curves, sections read from a file with mnemonic_case preserve/upper/"
    "lower, curves read with duplicates); a list of original mnemonics is kept in lock-step; invariants in every "
    "state: I1 session names pairwise distinct under the section's comparison, I2 s[k] / getattr(s, k) / las[k] resolve "
    "to the item's own object, I3 blank -> UNKNOWN[:k], I4 numbering :1..:n in order after an insertion and nothing "
    "else renamed, I5 originals only changed by rename, I6 write() emits the originals and read() reproduces originals "
    "and session names; states deduplicated by (comparison mode, (type, session, original) per item); non-trivial = "
    "state holding a duplicated or blank name"
)
ASSUMPTIONS = [
    "after a deletion stale suffixes may remain (the statement only prescribes numbering after insertions); distinctness is still required",
    "attribute access is checked only for identifier-like keys that list does not define",
    "I6 is evaluated for states whose names are file-safe (no '.' or ':' in a name)",
]

NAMES = ["A", "a", "B", "", "A:1", "A:2", "UNKNOWN"]
DEPTH = {"quick": 3, "thorough": 4}
MAXLEN = 5
ROOT_FILE = (
    "~V\nVERS. 2.0 :\nWRAP. NO :\n~W\nSTRT.M 1 :\nSTOP.M 2 :\nSTEP.M 1 :\nNULL. -999.25 :\n~P\nA. 1 : first\na. 2 : second\n"
    "B. 3 : third\n. 4 : blank\n~C\nD.M : depth\nA. : a one\nA. : a two\n. : blank\n~A\n1 2 3 4\n2 3 4 5\n"
)
ROOTS = ["empty", "empty-ci", "lascurves", "read-preserve", "read-upper", "read-lower", "read-curves"]


def bounds(tier):
    return {"max_depth": DEPTH[tier], "names": NAMES, "roots": ROOTS, "max_items": MAXLEN}


_PROTO = {}


def _make_root_real(root):
    """Returns (section, las_or_None, item_factory)."""
    if root == "empty":
        return SectionItems(), None, HeaderItem
    if root == "empty-ci":
        s = SectionItems()
        s.mnemonic_transforms = True
        return s, None, HeaderItem
    if root == "lascurves":
        las = lasio.LASFile()
        return las.curves, las, CurveItem
    if root.startswith("read-"):
        case = {"read-preserve": "preserve", "read-upper": "upper", "read-lower": "lower", "read-curves": "upper"}[root]
        las = lasio.read(ROOT_FILE, mnemonic_case=case)
        if root == "read-curves":
            return las.curves, las, CurveItem
        return las.params, las, HeaderItem
    raise ValueError(root)


def make_root(root):
    """The read roots cost 1 ms per lasio.read; they are read once per process and cloned through the
    public constructors (original mnemonic) + set_session_mnemonic_only (session name).  The clone is
    asserted to have the same canonical state as a genuinely re-read section."""
    if not root.startswith("read-"):
        return _make_root_real(root)
    if root not in _PROTO:
        _PROTO[root] = _make_root_real(root)
        again = _make_root_real(root)
        c = _clone(root)
        assert canon_state(c[0], bool(c[0].mnemonic_transforms)) == canon_state(again[0], bool(again[0].mnemonic_transforms))
        assert [(i.unit, i.value, i.descr) for i in c[0]] == [(i.unit, i.value, i.descr) for i in again[0]]
    return _clone(root)


def _clone(root):
    psec, plas, factory = _PROTO[root]
    sec = SectionItems()
    sec.mnemonic_transforms = psec.mnemonic_transforms
    for it in psec:
        if factory is CurveItem:
            n = CurveItem(it.original_mnemonic, it.unit, it.value, it.descr, np.array(it.data))
        else:
            n = HeaderItem(it.original_mnemonic, it.unit, it.value, it.descr)
        list.append(sec, n)
        n.set_session_mnemonic_only(it.mnemonic)
    las = lasio.LASFile()
    if factory is CurveItem:
        las.sections["Curves"] = sec
    else:
        las.sections["Parameter"] = sec
    return sec, las, factory


def new_item(factory, name, step):
    if factory is CurveItem:
        return CurveItem(name, "u", "v%d" % step, "d", np.array([float(step), float(step) + 0.5]))
    return HeaderItem(name, "u", "v%d" % step, "d")


def cmp(ci, a, b):
    return a.upper() == b.upper() if ci else a == b


def first_match(keys, key, ci):
    for i, k in enumerate(keys):
        if cmp(ci, k, key):
            return i
    return None


def alphabet(n, keys):
    ops = [["append", nm] for nm in NAMES]
    # the LASFile-level entry points for curves (append_curve / insert_curve); on other sections the same as append / insert
    ops += [["las_append", nm] for nm in ("A", "A:1", "", "a")]
    ops += [["las_insert", 0, "A:1"], ["las_insert", 0, "A"]]
    for pos in sorted({0, n // 2, n}):
        for nm in ("A", "", "A:1", "a"):
            ops.append(["insert", pos, nm])
    if n:
        ops.append(["del_ix", 0])
        ops.append(["del_ix", -1])
        # removal through the list API a section inherits (pop) and, for the curves of a LASFile, through delete_curve
        ops.append(["pop", -1])
        ops.append(["pop", 0])
        ops.append(["delete_curve", n // 2])
        for p in range(n):
            ops.append(["del_key", p])
        for p in range(min(n, 3)):
            for nm in ("A", "B", ""):
                ops.append(["set_item", p, nm])
        for p in sorted({0, n - 1}):
            for nm in ("A", "B", ""):
                ops.append(["rename", p, nm])
    return ops


def apply(section, factory, originals, op, step, ci):
    """Apply to the real section and to the list of originals. Returns (new_originals, inserted_name or None)."""
    keys = [i.mnemonic for i in section]
    o = list(originals)
    kind = op[0]
    inserted = None
    if kind == "append":
        section.append(new_item(factory, op[1], step))
        o.append(op[1])
        inserted = op[1]
    elif kind == "insert":
        section.insert(op[1], new_item(factory, op[2], step))
        o.insert(op[1], op[2])
        inserted = op[2]
    elif kind in ("las_append", "las_insert"):
        las = getattr(section, "_verif_owner", None)
        nm = op[-1]
        pos = len(o) if kind == "las_append" else op[1]
        if las is not None and section is las.curves:
            it = new_item(CurveItem, nm, step)
            if kind == "las_append":
                las.append_curve_item(it)
            else:
                las.insert_curve_item(pos, it)
        else:
            section.insert(pos, new_item(factory, nm, step))
        o.insert(pos, nm)
        inserted = nm
    elif kind == "del_ix":
        del section[op[1]]
        o.pop(op[1])
    elif kind == "pop":
        section.pop(op[1])
        o.pop(op[1])
    elif kind == "delete_curve":
        las = getattr(section, "_verif_owner", None)
        if las is not None and section is las.curves:
            las.delete_curve(ix=op[1])
        else:
            section.pop(op[1])
        o.pop(op[1])
    elif kind == "del_key":
        key = keys[op[1]]
        p = first_match(keys, key, ci)
        del section[key]
        o.pop(p)
    elif kind == "set_item":
        key = keys[op[1]]
        p = first_match(keys, key, ci)
        section.set_item(key, new_item(factory, op[2], step))
        o[p] = op[2]
    elif kind == "rename":
        list.__getitem__(section, op[1]).mnemonic = op[2]
        section.assign_duplicate_suffixes()
        o[op[1]] = op[2]
    return o, inserted


def useful(name):
    return "UNKNOWN" if name.strip() == "" else name


LIST_ATTRS = set(dir(list)) | set(dir(SectionItems))


def invariants(section, las, originals, ci, before_sessions=None, inserted=None, op_kind=None):
    """Returns list of (clause, expected, observed)."""
    bad = []
    items = list(section)
    sess = [i.mnemonic for i in items]
    orig = [i.original_mnemonic for i in items]
    # I5 originals follow the model
    if orig != originals:
        bad.append(("I5-originals", originals, orig))
        return bad
    # I1 pairwise distinct
    seen = {}
    for p, k in enumerate(sess):
        kk = k.upper() if ci else k
        if kk in seen:
            bad.append(("I1-distinct", "pairwise distinct session mnemonics", sess))
            break
        seen[kk] = p
    # I3 blanks
    for it in items:
        if it.original_mnemonic.strip() == "":
            m = it.mnemonic
            if not (m == "UNKNOWN" or (m.startswith("UNKNOWN:") and m[8:].isdigit())):
                bad.append(("I3-blank", "UNKNOWN or UNKNOWN:k", m))
                break
    # I2 resolution (only meaningful when names are distinct)
    if not bad:
        for p, it in enumerate(items):
            k = it.mnemonic
            try:
                if section[k] is not it:
                    bad.append(("I2-getitem", "s[%r] is item %d" % (k, p), "another item (%r)" % section[k].original_mnemonic))
                    break
            except Exception as e:
                bad.append(("I2-getitem", "s[%r] is item %d" % (k, p), repr(e)))
                break
            if k.isidentifier() and not keyword.iskeyword(k) and k not in LIST_ATTRS:
                try:
                    if getattr(section, k) is not it:
                        bad.append(("I2-getattr", "s.%s is item %d" % (k, p), "another item"))
                        break
                except Exception as e:
                    bad.append(("I2-getattr", "s.%s is item %d" % (k, p), repr(e)))
                    break
            if las is not None and section is las.curves:
                try:
                    if las[k] is not it.data:
                        bad.append(("I2-las-getitem", "las[%r] is curve %d's data" % (k, p), "other"))
                        break
                except Exception as e:
                    bad.append(("I2-las-getitem", "las[%r] is curve %d's data" % (k, p), repr(e)))
                    break
    # I4 numbering after an insertion
    if inserted is not None and before_sessions is not None:
        X = useful(inserted)
        group = [p for p, it in enumerate(items) if cmp(ci, useful(it.original_mnemonic), X)]
        if len(group) >= 2:
            want = [useful(items[p].original_mnemonic) + ":%d" % (r + 1) for r, p in enumerate(group)]
        else:
            want = [useful(items[p].original_mnemonic) for p in group]
        got = [sess[p] for p in group]
        if got != want:
            bad.append(("I4-numbering", want, got))
    return bad


def canon_state(section, ci):
    return (ci, tuple((type(i).__name__, i.mnemonic, i.original_mnemonic) for i in section))


def file_safe(originals):
    return all("." not in n and ":" not in n for n in originals)


def roundtrip_check(root, section, las, originals, ci):
    """I6 for the items as they are, and once more with every value emptied (an empty value on an item that
    has a unit is normalised by write(): the item written must still be the original one)."""
    bad = _roundtrip_check(root, section, las, originals, ci, False)
    if not bad and not (any(isinstance(i, CurveItem) for i in section) or root in ("lascurves", "read-curves")):
        bad = _roundtrip_check(root, section, las, originals, ci, True)
    return bad


def _roundtrip_check(root, section, las, originals, ci, empty_values):
    """I6: write() emits the originals in order; read() reproduces originals and session names."""
    case = {"read-preserve": "preserve", "read-upper": "upper", "read-lower": "lower", "read-curves": "upper",
            "empty": "preserve", "empty-ci": "upper", "lascurves": "preserve"}[root]
    f = lasio.LASFile()
    is_curves = any(isinstance(i, CurveItem) for i in section) or root in ("lascurves", "read-curves")
    if is_curves:
        for it in section:
            f.curves.append(CurveItem(it.original_mnemonic, it.unit, it.value, it.descr, np.array([1.0, 2.0])))
        if not len(f.curves):
            return []
        f.curves.mnemonic_transforms = ci
        f.curves.assign_duplicate_suffixes()
        target = f.curves
    else:
        f.append_curve("DEPT", np.array([1.0, 2.0]))
        for it in section:
            f.params.append(HeaderItem(it.original_mnemonic, it.unit, "" if empty_values else it.value, it.descr))
        target = f.params
    # the clone was built by appends only; its session names are what lasio assigns on reading order
    s = io.StringIO()
    f.write(s)
    text = s.getvalue()
    back = lasio.read(text, mnemonic_case=case)
    bsec = back.curves if is_curves else back.params
    fn = {"preserve": lambda x: x, "upper": str.upper, "lower": str.lower}[case]
    bad = []
    want_o = [fn(n) for n in originals]
    got_o = [i.original_mnemonic for i in bsec]
    if got_o != want_o:
        bad.append(("I6-originals-roundtrip", want_o, got_o))
        return bad
    again = lasio.read(text, mnemonic_case=case)
    asec = again.curves if is_curves else again.params
    if [i.mnemonic for i in asec] != [i.mnemonic for i in bsec]:
        bad.append(("I6-session-not-reproducible", [i.mnemonic for i in bsec], [i.mnemonic for i in asec]))
    # session names after reading = numbering by reading order (I4 applied to the whole section)
    want_s = []
    cin = case != "preserve"
    for p, n in enumerate(want_o):
        u = useful(n)
        grp = [q for q, m in enumerate(want_o) if cmp(cin, useful(m), u)]
        want_s.append(u if len(grp) == 1 else "%s:%d" % (u, grp.index(p) + 1))
    if [i.mnemonic for i in bsec] != want_s:
        bad.append(("I6-session-after-read", want_s, [i.mnemonic for i in bsec]))
    return bad


def build(root, history):
    section, las, factory = make_root(root)
    if las is not None and section is las.curves:
        try:
            object.__setattr__(section, "_verif_owner", las)
        except Exception:
            pass
    ci = bool(section.mnemonic_transforms)
    originals = [i.original_mnemonic for i in section]
    for step, op in enumerate(history):
        originals, _ = apply(section, factory, originals, op, step, ci)
    return section, las, factory, originals, ci


def step_check(root, history, op, do_roundtrip=True):
    try:
        section, las, factory, originals, ci = build(root, history)
    except Exception as e:
        return [viol("replay-diverged", root, history, op, "history replays", repr(e))], None
    before = [i.mnemonic for i in section]
    before_ids = [id(i) for i in section]
    # every name is looked up through every access path BEFORE the operation (an answer remembered from an earlier
    # lookup must not survive the operation)
    if las is not None and section is las.curves:
        try:
            object.__setattr__(section, "_verif_owner", las)
        except Exception:
            pass
    for k in before + ["A", "a", "UNKNOWN", "A:1", "A:2", "B"]:
        for fn in (lambda: section[k], lambda: k in section, lambda: section.get(k), lambda: getattr(section, k) if k.isidentifier() else None,
                   lambda: las[k] if (las is not None and section is las.curves) else None):
            try:
                fn()
            except Exception:
                pass
    try:
        new_orig, inserted = apply(section, factory, originals, op, len(history), ci)
    except Exception as e:
        return [viol("op-raises", root, history, op, "operation succeeds", "%s: %s" % (type(e).__name__, str(e)[:120]))], None
    bad = invariants(section, las, new_orig, ci, before, inserted, op[0])
    # I2, negative half: a session name that no item wears any more resolves to nothing
    if not bad:
        now = [i.mnemonic for i in section]
        for k in before:
            if first_match(now, k, ci) is None:
                try:
                    got = section[k]
                    bad.append(("I2-stale-name-resolves", "KeyError for %r (no item has this session name now)" % k,
                                "item %r" % getattr(got, "original_mnemonic", got)))
                    break
                except KeyError:
                    pass
                except Exception as e:
                    bad.append(("I2-stale-name-resolves", "KeyError for %r" % k, repr(e)))
                    break
                if las is not None and section is las.curves:
                    try:
                        las[k]
                        bad.append(("I2-stale-name-resolves", "KeyError for las[%r]" % k, "data of a removed or renamed curve"))
                        break
                    except KeyError:
                        pass
                    except Exception:
                        pass
    # I4 second half: an insertion renames nothing outside the inserted name's group
    if inserted is not None and not bad:
        X = useful(inserted)
        after = {id(i): i.mnemonic for i in section}
        for pid, old in zip(before_ids, before):
            it = next(i for i in section if id(i) == pid)
            if not cmp(ci, useful(it.original_mnemonic), X) and after[pid] != old:
                bad.append(("I4-other-renamed", {"item": it.original_mnemonic, "session": old}, after[pid]))
                break
    vio = [viol(c, root, history, op, e, o, section) for c, e, o in bad]
    if vio:
        return vio, None
    key = canon_state(section, ci)
    if do_roundtrip is True or (do_roundtrip is not False and key not in do_roundtrip):
        if file_safe(new_orig) and 0 < len(section) <= 4:
            try:
                rb = roundtrip_check(root, section, las, new_orig, ci)
            except Exception as e:
                rb = [("I6-roundtrip-raises", "write/read succeed", "%s: %s" % (type(e).__name__, str(e)[:150]))]
            vio = [viol(c, root, history, op, e, o, section) for c, e, o in rb]
            if vio:
                return vio, None
    return [], key


def viol(clause, root, history, op, expected, observed, section=None):
    sig = "unclassified"
    if section is not None:
        sig = classify(clause, section)
    return {"clause": clause, "sig": sig, "witness": {"root": root, "history": history, "op": op},
            "expected": expected, "observed": observed, "size": len(history),
            "repro": "root %s, then %r" % (root, history + [op])}


def classify(clause, section):
    """RC11 shape: an item literally named X:k (k digits) whose session name is also worn by a numbered duplicate
    of X (or an UNKNOWN literal next to a blank item).  Everything else is left unclassified on purpose."""
    items = list(section)
    ci = bool(section.mnemonic_transforms)
    sess = [i.mnemonic for i in items]
    for p, it in enumerate(items):
        o = it.original_mnemonic
        if ":" in o and o.rsplit(":", 1)[1].isdigit():
            stem = o.rsplit(":", 1)[0]
            for q, jt in enumerate(items):
                if q != p and cmp(ci, jt.mnemonic, it.mnemonic) and cmp(ci, useful(jt.original_mnemonic), stem):
                    return "literal-suffix-name-collides-with-generated-suffix"
    if clause.startswith("I1") or clause.startswith("I2"):
        return "op=" + "unclassified"
    return "unclassified"


FILE_NAMES = ["A", "a", "", "UNKNOWN", "B"]


def file_cases(tier):
    """~C name lists of length 0..3 (quick) / 0..4 (thorough) x 0..2 data columns more than declared curves."""
    import itertools
    out = []
    for n in range(0, 4 if tier == "quick" else 5):
        for names in itertools.product(FILE_NAMES, repeat=n):
            for surplus in (0, 1, 2):
                if n + surplus == 0:
                    continue
                out.append((list(names), surplus))
    return out


def check_file_case(names, surplus, case, engine):
    """After reading a file: the invariants on las.curves (blank and duplicated names among the declared curves and the
    unnamed curves made for surplus data columns)."""
    ncol = len(names) + surplus
    text = ("~V\nVERS. 2.0 : v\nWRAP. NO : w\n~W\nSTRT.M 1 : s\nSTOP.M 2 : s\nSTEP.M 1 : s\nNULL. -999.25 : n\n~C\n"
            + "".join("%s.U : curve %d\n" % (nm, j) for j, nm in enumerate(names))
            + "~A\n" + "".join(" ".join("%d.5" % (10 * i + j) for j in range(ncol)) + "\n" for i in range(2)))
    fn = {"preserve": lambda x: x, "upper": str.upper, "lower": str.lower}[case]
    witness = {"file_case": [names, surplus, case, engine], "text": text}
    try:
        las = lasio.read(text, mnemonic_case=case, engine=engine)
    except Exception as e:
        return [{"clause": "file-read-raises", "sig": "file", "witness": witness, "expected": "a successful read", "observed": repr(e)[:200],
                 "size": ncol, "repro": "lasio.read(text, mnemonic_case=%r, engine=%r)" % (case, engine)}]
    originals = [fn(n) for n in names] + [""] * surplus
    ci = case != "preserve"
    bad = invariants(las.curves, las, originals, ci)
    # numbering by reading order (I4 over the whole section), as in I6
    if not bad:
        want = []
        for p_, n in enumerate(originals):
            u = useful(n)
            grp = [q for q, m in enumerate(originals) if cmp(ci, useful(m), u)]
            want.append(u if len(grp) == 1 else "%s:%d" % (u, grp.index(p_) + 1))
        got = [i.mnemonic for i in las.curves]
        if got != want:
            bad.append(("I4-numbering-after-read", want, got))
    # the same name list as extra items of ~Version / ~Well / ~Parameter: invariants after reading, and write() emits the
    # originals, so a second read gives the same originals and session names (duplicates and blanks survive the trip)
    if not bad and surplus == 0 and names and all(":" not in n for n in names):
        for secname, title, head in (("Version", "~V", 2), ("Well", "~W", 4), ("Parameter", "~P", 0)):
            lines = "".join("%s.U v%d : item %d\n" % (nm, j, j) for j, nm in enumerate(names))
            t2 = ("~V\nVERS. 2.0 : v\nWRAP. NO : w\n" + (lines if secname == "Version" else "")
                  + "~W\nSTRT.M 1 : s\nSTOP.M 2 : s\nSTEP.M 1 : s\nNULL. -999.25 : n\n" + (lines if secname == "Well" else "")
                  + ("~P\n" + lines if secname == "Parameter" else "") + "~C\nD.M : d\n~A\n1\n2\n")
            try:
                l1 = lasio.read(t2, mnemonic_case=case, engine=engine)
                sec1 = l1.sections[secname]
                o1 = [i.original_mnemonic for i in sec1][head:]
                if o1 != [fn(n) for n in names]:
                    bad.append(("I5-originals-after-read:" + secname, [fn(n) for n in names], o1))
                    break
                b2 = invariants(sec1, l1, [i.original_mnemonic for i in sec1], ci)
                if b2:
                    bad.extend(b2)
                    break
                # numbering by reading order, unique names untouched (under the comparison that the read option implies)
                o_all = [i.original_mnemonic for i in sec1]
                want_s = []
                for p_, n in enumerate(o_all):
                    u = useful(n)
                    grp = [q for q, m in enumerate(o_all) if cmp(ci, useful(m), u)]
                    want_s.append(u if len(grp) == 1 else "%s:%d" % (u, grp.index(p_) + 1))
                if [i.mnemonic for i in sec1] != want_s:
                    bad.append(("I4-numbering-after-read:" + secname, want_s, [i.mnemonic for i in sec1]))
                    break
                buf = io.StringIO()
                l1.write(buf, version=2.0)
                l2 = lasio.read(buf.getvalue(), mnemonic_case=case, engine=engine)
                sec2 = l2.sections[secname]
                if [i.original_mnemonic for i in sec2] != [i.original_mnemonic for i in sec1]:
                    bad.append(("I6-originals-roundtrip:" + secname, [i.original_mnemonic for i in sec1], [i.original_mnemonic for i in sec2]))
                    break
                if [i.mnemonic for i in sec2] != [i.mnemonic for i in sec1]:
                    bad.append(("I6-session-roundtrip:" + secname, [i.mnemonic for i in sec1], [i.mnemonic for i in sec2]))
                    break
            except Exception as e:
                bad.append(("file-roundtrip-raises:" + secname, "read, write and read again succeed", "%s: %s" % (type(e).__name__, str(e)[:160])))
                break
            witness = dict(witness, text2=t2)
    out = []
    for c, e, o in bad:
        v = viol(c, "file", [], ["file"], e, o, las.curves)
        v["witness"] = witness
        v["size"] = ncol
        out.append(v)
    return out


def units(tier, seed):
    us = []
    cases = file_cases(tier)
    for k in range(0, len(cases), 60):
        us.append({"kind": "files", "tier": tier, "range": [k, min(k + 60, len(cases))]})
    for root in ROOTS:
        section, las, factory = make_root(root)
        for op in alphabet(len(section), [i.mnemonic for i in section]):
            us.append({"root": root, "tier": tier, "first": op})
    return us


def run_unit(unit):
    if unit.get("kind") == "files":
        res = {"evals": 0, "nontrivial": set(), "outcomes": {}, "violations": [], "samples": [],
               "states": set(), "transitions": 0, "traces": 0, "max_depth": 0, "extra": {}}
        cases = file_cases(unit["tier"])[unit["range"][0]:unit["range"][1]]
        for names, surplus in cases:
            for case in ("upper", "preserve", "lower"):
                for engine in ("numpy", "normal"):
                    vio = check_file_case(names, surplus, case, engine)
                    res["evals"] += 1
                    res["transitions"] += 1
                    oc = "file:" + ("violation" if vio else "ok")
                    res["outcomes"][oc] = res["outcomes"].get(oc, 0) + 1
                    res["violations"].extend(vio)
                    if surplus or len(set(n.upper() for n in names)) < len(names) or "" in names:
                        res["nontrivial"].add(hashlib.blake2b(repr((names, surplus, case, engine)).encode(), digest_size=8).hexdigest())
        if cases:
            res["samples"].append({"file_case": [cases[0][0], cases[0][1]]})
        res["violations"] = e1.compress(res["violations"])
        return res
    root, tier = unit["root"], unit["tier"]
    depth = DEPTH[tier]
    res = {"evals": 0, "nontrivial": set(), "outcomes": {}, "violations": [], "samples": [],
           "states": set(), "transitions": 0, "traces": 0, "max_depth": 0, "extra": {}}
    seen = set()

    def h8(x):
        return hashlib.blake2b(repr(x).encode(), digest_size=8).hexdigest()

    def expand(history, op):
        vio, key = step_check(root, history, op, seen)  # I6 only for states not seen before
        res["transitions"] += 1
        res["traces"] += 1
        res["evals"] += 1
        oc = op[0] + (":ok" if key else ":violation")
        res["outcomes"][oc] = res["outcomes"].get(oc, 0) + 1
        res["violations"].extend(vio)
        if key and key not in seen and len(key[1]) <= MAXLEN:
            seen.add(key)
            names = [useful(o).upper() if key[0] else useful(o) for (_, _, o) in key[1]]
            if len(set(names)) < len(names) or any(o.strip() == "" for (_, _, o) in key[1]):
                res["nontrivial"].add(h8(key))
            return history + [op]
        return None

    frontier = []
    h = expand([], unit["first"])
    if h:
        frontier.append(h)
        res["max_depth"] = 1
    for d in range(2, depth + 1):
        nxt = []
        for hist in frontier:
            section, las, factory, originals, ci = build(root, hist)
            for op in alphabet(len(section), [i.mnemonic for i in section]):
                h2 = expand(hist, op)
                if h2:
                    nxt.append(h2)
        if frontier:
            res["max_depth"] = d
        frontier = nxt
    res["states"] = {h8(k) for k in seen}
    if frontier:
        res["samples"].append({"root": root, "history": frontier[0]})
    res["violations"] = e1.compress(res["violations"])
    return res


def replay(witness):
    if "file_case" in witness:
        return check_file_case(*witness["file_case"])
    vio, _ = step_check(witness["root"], witness["history"], witness["op"])
    return vio
