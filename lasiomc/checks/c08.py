"""C08 - header values become numbers only when they are numeric literals.
E1: every string up to a length bound over a 17-symbol alphabet, compared with
an independent three-way literal recogniser."""
import itertools

import numpy as np

import lasio
from lasio import reader

from ..core import e1

PROPERTY = "C08"
LEVEL = "exploration"
RULE = (
    "every string of length 0..L over {0 1 9 + - . , e E _ blank a W / : x n} (L=5 quick over ~Well and ~Parameter, "
    "L=4 additionally over ~Well 1.2, ~Version and a custom section; thorough L=6 over a 12-symbol alphabet) as the value "
    "of item X through SectionParser(title, version)(**read_header_line(line, section)) - exactly what the header loop "
    "runs per line; every string of length <= 3 under mnemonics {X, API, UWI, api, Uwi} in 4 section kinds and as a "
    "~Curves value through lasio.read; the values of NULL, STRT, STOP and STEP (which read() itself inspects) one file per string; a list of known traps (inf, nan, hex, overflow, non-ASCII digits, 2^63 edge, "
    "grouped digits, literals of every length 18..45 and of 300+ digits); the lasio.read family also under read_policy=() / null_policy='none' and read_policy='comma-delimiter'; all points after a process prelude (many other files, incl. LAS 3.0, read first); oracle: hand-written scanner (no regex, no float()) classifying definitely-literal / "
    "definitely-not / ambiguous ('5.', '.5', '5,', ',5'); non-trivial = distinct stripped non-empty strings"
)
ASSUMPTIONS = [
    "strings are embedded after a unit ('X.U <s> : d') so that the value field is exactly the stripped string; strings "
    "containing ':' are used only where the last-colon rule keeps them whole (not in ~Parameter, not in 1.2 ~Well)",
    "'5.', '.5', '5,', ',5' and their exponent forms are ambiguous under the statement: either outcome is accepted, a numeric one must equal the obvious reading",
]

ALPHA = ["0", "1", "9", "+", "-", ".", ",", "e", "E", "_", " ", "a", "W", "/", ":", "x", "n"]
ALPHA_T = ["0", "1", "9", "+", "-", ".", ",", "e", "_", " ", "a", ":"]
TRAPS = ["inf", "-inf", "+inf", "nan", "NaN", "Infinity", "-Infinity", "0x10", "0b1", "0o7", "1e400", "-1e400", "1e-400",
         "１２", "١٢", "1__0", "1e1_0", "1_000", "15_9", "1_0.5", "9223372036854775807", "9223372036854775808",
         "-9223372036854775808", "-9223372036854775809", "12345678901234567890", "1,5,5", "1,000.5", "1.5.5", "1,5e3", "1e5",
         "1E5", "1e+5", "1e-5", "+1.5e+3", "-0", "-0.0", "0012", "00", "1e", "e1", "1e+", ".e1", "1.e1", ".5e1", "5.e", "12-34-12-34W5M",
         "2020-01-01", "13:45", "1/2", "1 2", "1\t2", "٣", "²", "1٣", "infinity", "1d5", "1f", "0.1.", "..1", "1,,2", "1.,2", "+-1",
         "--1", "1-", "1+", "+", "-", ".", ",", "", "TRUE", "None"]


# literals of every length from 18 to 45 characters: long integers (beyond 64 bits -> float), zero-padded integers,
# long fractions, comma marks, exponents after many digits
for _L in range(18, 46):
    TRAPS += ["1" + "0" * (_L - 1), "0" * (_L - 1) + "7", "0." + "0" * (_L - 3) + "5", "-0," + "0" * (_L - 4) + "5",
              "1." + "2" * (_L - 5) + "e-3", "+" + "9" * (_L - 1)]
TRAPS += ["0.1" + "0" * 300, "1" + "0" * 308, "1" + "0" * 309, "x" * 40, "1" * 30 + "a"]


def scan(s):
    """('lit', 'int'|'float') | ('amb',) | ('not',).  Grammar: sign? digits [mark digits]? [e sign? digits]?"""
    n = len(s)
    i = 0
    if n == 0:
        return ("not",)
    if s[i] in "+-":
        i += 1
    a = i
    while i < n and s[i] in "0123456789":
        i += 1
    int_digits = i - a
    kind = "int"
    amb = False
    if i < n and s[i] in ".,":
        i += 1
        b = i
        while i < n and s[i] in "0123456789":
            i += 1
        frac_digits = i - b
        kind = "float"
        if int_digits == 0 and frac_digits == 0:
            return ("not",)
        if int_digits == 0 or frac_digits == 0:
            amb = True
    elif int_digits == 0:
        return ("not",)
    if i < n and s[i] in "eE":
        i += 1
        if i < n and s[i] in "+-":
            i += 1
        c = i
        while i < n and s[i] in "0123456789":
            i += 1
        if i == c:
            return ("not",)
        kind = "float"
    if i != n:
        return ("not",)
    return ("amb",) if amb else ("lit", kind)


def obvious_value(s):
    t = s.replace(",", ".")
    u = t
    if u.startswith(("+", "-")):
        sign, u = u[0], u[1:]
    else:
        sign = ""
    # '5.' -> '5.0', '.5' -> '0.5' so that decimal parsing never depends on lenient float()
    if u.startswith("."):
        u = "0" + u
    u = u.replace(".e", ".0e").replace(".E", ".0E")
    if u.endswith("."):
        u = u + "0"
    return float(sign + u)


def judge(raw, got, section_kind, mnemonic):
    """None if fine, else (expected description)."""
    verbatim_only = (mnemonic.upper() in ("API", "UWI") and section_kind != "Parameter") or section_kind == "Curves"
    is_num = isinstance(got, (int, float, np.integer, np.floating)) and not isinstance(got, bool)
    if verbatim_only:
        if is_num or got != raw:
            return "verbatim string %r (API/UWI or ~Curves value)" % raw
        return None
    c = scan(raw)
    if c[0] == "not":
        if is_num or got != raw:
            return "verbatim string %r (not a plain decimal literal)" % raw
        return None
    val = obvious_value(raw)
    if c[0] == "amb":
        if is_num:
            if float(got) != val:
                return "either %r or the number %r" % (raw, val)
            return None
        return None if got == raw else "either %r or the number %r" % (raw, val)
    # definitely a literal
    if val in (float("inf"), float("-inf")):
        if is_num or got != raw:
            return "verbatim string %r (overflows to infinity)" % raw
        return None
    if c[1] == "int":
        iv = int(raw)
        if -2 ** 63 <= iv <= 2 ** 63 - 1:
            if not isinstance(got, (int, np.integer)) or isinstance(got, bool) or int(got) != iv:
                return "integer %d" % iv
            return None
        if not isinstance(got, (float, np.floating)) or float(got) != float(iv):
            return "float %r (integer literal beyond 64 bits)" % float(iv)
        return None
    if not isinstance(got, (float, np.floating)) or float(got) != val:
        return "float %r" % val
    return None


SEAMS = {
    # name: (title, version, section_name for read_header_line, template, colon_ok, kind)
    "well20": ("~Well", 2.0, "Well", "%s.U %s : d", True, "Well"),
    "param20": ("~Parameter", 2.0, "Parameter", "%s.U %s : d", False, "Parameter"),
    "well12": ("~Well", 1.2, "Well", "%s.U d : %s", False, "Well"),
    "version": ("~Version", 2.0, "Version", "%s.U %s : d", True, "Version"),
    "custom": ("~Xtra stuff", 2.0, "~Xtra stuff", "%s.U %s : d", True, "custom"),
    "curves": ("~Curve", 2.0, "Curves", "%s.U %s : d", True, "Curves"),
}


def via_seam(seam, mnemonic, s):
    title, version, secname, tmpl, colon_ok, kind = SEAMS[seam]
    line = tmpl % (mnemonic, s)
    parser = reader.SectionParser(title, version=version)
    values = reader.read_header_line(line.strip(), section_name=parser.section_name2)
    item = parser(**values)
    return item.value


def bounds(tier):
    return {"alphabet": ALPHA if tier == "quick" else {"len<=5": ALPHA, "len6": ALPHA_T}, "max_len": 5 if tier == "quick" else 6,
            "seams": list(SEAMS), "traps": len(TRAPS), "via_read_max_len": 3, "mnemonics": ["X", "API", "UWI", "api", "Uwi"]}


def points(tier):
    pts = []
    for seam in ("well20", "param20"):
        for a in ALPHA:
            for b in ALPHA:
                pts.append(["seam", seam, "X", a + b, 3])  # prefix of length 2, suffixes 0..3
        pts.append(["seam", seam, "X", "", 1])  # lengths 0..1
    for seam in ("well12", "version", "custom", "curves"):
        for a in ALPHA:
            for b in ALPHA:
                pts.append(["seam", seam, "X", a + b, 2])
        pts.append(["seam", seam, "X", "", 1])
    for seam in ("well20", "well12", "version", "custom", "param20"):
        for mn in ("API", "UWI", "api", "Uwi", "Api"):
            for a in ALPHA:
                pts.append(["seam", seam, mn, a, 2])
        # names that merely begin or end like API / UWI are ordinary items
        for mn in ("APIN", "API2", "apig", "XAPI", "UWIX", "XUWI", "uwi2", "A", "U"):
            for a in ALPHA:
                pts.append(["seam", seam, mn, a, 1])
    if tier == "thorough":
        for seam in ("well20", "param20"):
            for pre in itertools.product(ALPHA_T, repeat=3):
                pts.append(["seamT", seam, "X", "".join(pre), 3])
    for seam in SEAMS:
        for mn in ("X", "API", "uwi"):
            pts.append(["traps", seam, mn])
    for sec in ("Parameter_", "Curves_", "Well_"):
        for mn in ("X", "API", "UWI"):
            for chunk in range(0, 5220, 6 * CHUNK):
                pts.append(["read", sec, mn, chunk])
    for sec in ("Well", "Parameter", "Version", "custom", "Curves"):
        for mn in ("X", "API", "UWI", "api", "Uwi"):
            for chunk in range(0, 5220, CHUNK):
                pts.append(["read", sec, mn, chunk])
                if mn == "X" and sec != "Curves":
                    # header value conversion is independent of the data-section read_policy / null_policy
                    pts.append(["read", sec, mn, chunk, "nopolicy"])
                    pts.append(["read", sec, mn, chunk, "comma-delimiter"])
                    # the file declares DLM COMMA / TAB for its data section: header values are judged as before
                    pts.append(["read", sec, mn, chunk, "dlm-comma"])
                    if sec != "Version" and chunk % (3 * CHUNK) == 0:
                        # a file WITHOUT a ~Version section, read into an object that has read a LAS 1.2 file before
                        pts.append(["read", sec, mn, chunk, "reuse12"])
                    if chunk % (4 * CHUNK) == 0:
                        pts.append(["read", sec, mn, chunk, "dlm-tab"])
    # the items lasio itself looks at after parsing (NULL, STRT, STOP, STEP): one value per file, traps and short strings
    for mn in ("NULL", "STRT", "STOP", "STEP"):
        pts.append(["read1", "Well", mn])
    return pts


def strings_for(prefix, extra, alpha):
    for k in range(0, extra + 1):
        for suf in itertools.product(alpha, repeat=k):
            yield prefix + "".join(suf)


def all_short(maxlen=3):
    out = []
    for k in range(0, maxlen + 1):
        for t in itertools.product(ALPHA, repeat=k):
            out.append("".join(t))
    return out


def run_seam(seam, mnemonic, strings):
    colon_ok = SEAMS[seam][4]
    kind = SEAMS[seam][5]
    vio = []
    n = 0
    nontriv = set()
    for s in strings:
        if ":" in s and not colon_ok:
            continue
        if kind == "Curves" and ".." in s:
            continue
        raw = s.strip()
        n += 1
        if raw:
            nontriv.add(raw)
        try:
            got = via_seam(seam, mnemonic, s)
        except Exception as e:
            vio.append(V("seam-raises", seam, mnemonic, s, "a value", "%s: %s" % (type(e).__name__, str(e)[:100])))
            continue
        why = judge(raw, got, kind, mnemonic)
        if why:
            vio.append(V("value-conversion", seam, mnemonic, s, why, "%s %r" % (type(got).__name__, got)))
    return vio, n, nontriv


def V(clause, seam, mnemonic, s, expected, observed):
    raw = s.strip()
    c = scan(raw)[0]
    feat = "underscore" if "_" in raw else ("non-ascii" if any(ord(ch) > 127 for ch in raw) else c)
    return {"clause": clause, "sig": "%s|%s|%s" % (SEAMS[seam][5] if seam in SEAMS else seam, "API/UWI" if mnemonic.upper() in ("API", "UWI") else "X", feat),
            "witness": {"seam": seam, "mnemonic": mnemonic, "string": s}, "expected": expected, "observed": observed,
            "size": len(s),
            "repro": "from lasio import reader; p=reader.SectionParser(%r, version=%r); print(repr(p(**reader.read_header_line(%r, section_name=p.section_name2)).value))"
                     % (SEAMS[seam][0], SEAMS[seam][1], (SEAMS[seam][3] % (mnemonic, s)).strip()) if seam in SEAMS else "lasio.read(...)"}


CHUNK = 60

READ_SECS = {
    "Well": ("~Well", "well20"), "Parameter": ("~Parameter", "param20"), "Version": ("~Version", "version"),
    "custom": ("~Xtra stuff", "custom"), "Curves": ("~Curve", "curves"),
    # the same section kinds under titles written with underscores (not the LAS 3.0 _Data/_Parameter/_Definition forms)
    "Parameter_": ("~PARAMETER_INFORMATION_BLOCK", "param20"), "Curves_": ("~CURVE_INFORMATION_BLOCK", "curves"),
    "Well_": ("~WELL_INFORMATION_BLOCK", "well20"),
}


RKW = {None: {}, "nopolicy": {"read_policy": (), "null_policy": "none"}, "comma-delimiter": {"read_policy": "comma-delimiter"},
       "dlm-comma": {}, "dlm-tab": {}, "reuse12": {}}


def run_read(sec, mnemonic, chunk, policy=None):
    title, seam = READ_SECS[sec]
    colon_ok = SEAMS[seam][4]
    strs = [s for s in all_short(3)[chunk:chunk + CHUNK] if (colon_ok or ":" not in s) and not (sec.startswith("Curves") and ".." in s)]
    # unique names for X keep the quadratic duplicate-suffix bookkeeping out of the way; API/UWI must keep their name
    lines = ["%s.U %s : d" % (mnemonic if mnemonic != "X" else "X%d" % k, s) for k, s in enumerate(strs)]
    head = "~Version\nVERS. 2.0 : v\nWRAP. NO : w\n"
    if policy in ("dlm-comma", "dlm-tab"):
        head += "DLM. %s : delimiter of the data section\n" % policy[4:].upper()
    if sec == "Version":
        text = head + "\n".join(lines) + "\n~Well\nNULL. -999.25 : n\n"
    else:
        text = head + title + "\n" + "\n".join(lines) + "\n"
    text += "~ASCII\n"
    vio = []
    try:
        if policy == "reuse12":
            import io
            text = text[len(head):]
            las = lasio.LASFile()
            las.read(io.StringIO("~V\nVERS. 1.2 : v\nWRAP. NO : w\n~W\nSTRT.M 1 : s\nSTOP.M 2 : s\nSTEP.M 1 : s\nNULL. -999.25 : n\nCOMP. company : ACME\n~C\nD.M : d\n~A\n1\n2\n"))
            las.read(io.StringIO(text), mnemonic_case="preserve", ignore_data=True)
        else:
            las = lasio.read(text, mnemonic_case="preserve", ignore_data=True, **RKW[policy])
        key = {"Well": "Well", "Parameter": "Parameter", "Version": "Version", "custom": "Xtra stuff", "Curves": "Curves",
               "Parameter_": "Parameter", "Curves_": "Curves", "Well_": "Well"}[sec]
        if sec.endswith("_") and not len(las.sections.get(key, [])):
            key = title[1:]   # where such a title is filed is not this property's subject: the items are taken from wherever they are
        items = list(las.sections[key])
        if sec == "Version":
            items = items[3:] if policy in ("dlm-comma", "dlm-tab") else items[2:]
    except Exception as e:
        return [V("read-raises", seam, mnemonic, "<chunk %d>" % chunk, "read succeeds", "%s: %s" % (type(e).__name__, str(e)[:200]))], len(strs), set()
    if len(items) != len(strs):
        return [V("read-item-count", seam, mnemonic, "<chunk %d>" % chunk, len(strs), len(items))], len(strs), set()
    nontriv = set()
    for it, s in zip(items, strs):
        raw = s.strip()
        if raw:
            nontriv.add(raw)
        why = judge(raw, it.value, SEAMS[seam][5], mnemonic)
        if why:
            v = V("value-conversion-via-read", seam, mnemonic, s, why, "%s %r" % (type(it.value).__name__, it.value))
            v["witness"] = {"read": [sec, mnemonic, chunk, policy], "string": s}
            vio.append(v)
    return vio, len(strs), nontriv


def run_read1(sec, mnemonic):
    """One file per string: the item is the only one of its name (NULL / STRT / ... are looked at by read() itself)."""
    vio = []
    strs = [t for t in TRAPS if ":" not in t and "\t" not in t] + [s for s in all_short(2)]
    nontriv = set()
    for s in strs:
        if ":" in s:
            continue
        raw = s.strip()
        lines = ["STRT.M 1 : s", "STOP.M 2 : e", "STEP.M 1 : st", "NULL. -999.25 : n"]
        lines = [l for l in lines if not l.startswith(mnemonic)] + ["%s.U %s : d" % (mnemonic, s)]
        text = "~Version\nVERS. 2.0 : v\nWRAP. NO : w\n~Well\n" + "\n".join(lines) + "\n~Curve\nD.M : d\nG. : g\n~ASCII\n1 5\n2 6\n"
        try:
            las = lasio.read(text, mnemonic_case="preserve")
            got = las.well[mnemonic].value
        except Exception as e:
            vio.append(V("read-raises", "well20", mnemonic, s, "read succeeds", "%s: %s" % (type(e).__name__, str(e)[:150])))
            vio[-1]["witness"] = {"read1": [sec, mnemonic], "string": s}
            continue
        if raw:
            nontriv.add(raw)
        why = judge(raw, got, "Well", mnemonic)
        if why:
            v = V("value-conversion-via-read", "well20", mnemonic, s, why, "%s %r" % (type(got).__name__, got))
            v["witness"] = {"read1": [sec, mnemonic], "string": s}
            vio.append(v)
    return vio, len(strs), nontriv


def check_point(pt):
    from ..core import inputs
    inputs.process_prelude()   # the points are explored in a process that has already read many other files
    kind = pt[0]
    if kind == "read1":
        vio, n, nt = run_read1(pt[1], pt[2])
        return e1.compress(vio), nt, kind, {kind + "_strings": n}, n
    if kind == "seam":
        vio, n, nt = run_seam(pt[1], pt[2], strings_for(pt[3], pt[4], ALPHA))
    elif kind == "seamT":
        vio, n, nt = run_seam(pt[1], pt[2], strings_for(pt[3], pt[4], ALPHA_T))
    elif kind == "traps":
        vio, n, nt = run_seam(pt[1], pt[2], TRAPS)
    else:
        vio, n, nt = run_read(pt[1], pt[2], pt[3], pt[4] if len(pt) > 4 else None)
    return e1.compress(vio), nt, kind, {kind + "_strings": n}, n


def replay(witness):
    if "read1" in witness:
        return [v for v in run_read1(*witness["read1"])[0] if v["witness"].get("string") == witness["string"]]
    if "read" in witness:
        sec, mn, chunk = witness["read"][:3]
        pol = witness["read"][3] if len(witness["read"]) > 3 else None
        return [v for v in run_read(sec, mn, chunk, pol)[0] if v["witness"].get("string") == witness["string"]]
    return run_seam(witness["seam"], witness["mnemonic"], [witness["string"]])[0]


def units(tier, seed):
    _P[tier] = points(tier)
    return [{"tier": tier, "i": i} for i in range(len(_P[tier]))]


_P = {}


def run_unit(unit):
    import hashlib
    tier = unit["tier"]
    if tier not in _P:
        _P[tier] = points(tier)
    pt = _P[tier][unit["i"]]
    vio, nt, oc, counters, evals = check_point(pt)
    keys = {hashlib.blake2b(s.encode(), digest_size=8).hexdigest() for s in nt}
    return {"evals": evals, "nontrivial": keys, "outcomes": {oc: 1}, "violations": vio,
            "samples": [{"point": pt}], "extra": counters}
