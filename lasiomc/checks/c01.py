"""C01 - numeric curve data survives write -> read within the printed precision.
E1 over (curve count, row count) x writer options (deviation ball + full
sub-products) x reading engine."""
import io
import math
from decimal import Decimal

import numpy as np

import lasio

from ..core import e1, space

PROPERTY = "C01"
LEVEL = "exploration"
RULE = (
    "LASFiles built through append_curve with nc curves x nr rows whose cells rotate through a palette spanning the "
    "float64 range (0, -0.0, +-4e-6, 0.5, 1, -12345.678, 1e5, 123456789.125, 1e15, 1e22, 1e73, 1e80, 1e300, 5e-324, "
    "2.5e-7, finite neighbours of the NULL marker (-9999.2567, -9999.2, 9999.25), the default NULL -9999.25 in the index only, NaN outside the index, one all-NaN column); written with "
    "every writer configuration in the k-deviation ball of (version, wrap, fmt, column_fmt, len_numeric_field, spacer, "
    "lhs_spacer, data_width, mnemonics_header, data_section_header) plus full sub-products, the object built through the API or obtained by read(mnemonic_case=lower/upper) and given the matrix, read back with both "
    "engines; the same object edited in place and written again; non-trivial = wrapped, or a non-default option, or nc >= 2"
)
ASSUMPTIONS = [
    "float formats that round (%d is excluded: it truncates)",
    "spacers are whitespace, or ',' / tab named by the ~V DLM item for unwrapped output (the documented usage); wrap=True "
    "together with a COMMA/TAB delimiter is outside the explored space (see DESIGN.md, observations)",
    "no finite non-index sample prints as the NULL marker; NaN never in the index",
    "tolerance = half a unit of the last digit of (fmt % x), computed by the harness with decimal, + 1 ulp",
]

IDX_PAL = [0.0, 1.0, -9999.25, 0.5, -12345.678, 1e5, 123456789.125, 4e-6, 1e15, -4e-6, 2.5e-7, 1e22]
VAL_PAL = [-0.0123, 0.0, -0.0, 4e-6, -4e-6, 0.5, 1.0, float("nan"), -12345.678, 1e5, 123456789.125, 1e15, 1e22, 1e73,
           float("nan"), 1e80, 1e300, 5e-324, 2.5e-7, -9999.2567, -9999.2, 9999.25]  # the last three sit next to the NULL marker

AXES = [
    ("version", [2.0, 1.2]),
    ("wrap", [False, True]),
    ("fmt", ["%.5f", "%.2f", "%.0f", "%g", "%.3e", "%.10g"]),
    ("column_fmt", [None, "first", "last", "finer-second"]),
    ("len_numeric_field", [None, -1, 5, 20]),
    ("spacer", [" ", "   ", "\t"]),
    ("lhs_spacer", [" ", "", "   "]),
    ("data_width", [79, 40, 20, 200]),
    ("mnemonics_header", [False, True]),
    ("data_section_header", ["~ASCII", "~A", "~A Log data"]),
    ("dlm", [None, "COMMA", "TAB"]),
    ("names", ["C", "numeric"]),
    # how the object came to be: built through the API, or read from text with a case-normalising option and then
    # given the palette matrix (its header mnemonics are then lower/upper case)
    ("origin", ["built", "read-lower", "read-upper"]),
    # the NULL marker of the object (its printed form differs: -9999.25, 1e+30, -999, 0 is not used: 0.0 is a palette value)
    ("null", [None, 1e30, -999, -1e-5]),
]


def shapes(tier):
    if tier == "quick":
        return [(nc, nr) for nc in (1, 2, 3, 6, 7, 8, 13, 14, 15, 21) for nr in (1, 2, 3)]
    return [(nc, nr) for nc in range(1, 41) for nr in (1, 2, 3, 5)]


def configs(tier):
    if tier == "quick":
        sub = [(n, v) for n, v in AXES if n in ("version", "wrap", "data_width")]
        k = 2
    else:
        sub = [(n, v) for n, v in AXES if n in ("version", "wrap", "fmt", "len_numeric_field", "data_width")]
        k = 2
    base = {n: v[0] for n, v in AXES}

    def sub_full():
        for pt in space.full(sub):
            d = dict(base)
            d.update(pt)
            yield d

    # the DLM pairing (spacer="," / "\t" named by ~V DLM) is documented for unwrapped output only
    return [c for c in space.union_points(space.deviations(AXES, k), sub_full()) if not (c["dlm"] and c["wrap"])]


def bounds(tier):
    return {"shapes": "nc in {1,2,3,6,7,8,13,14,15,21} x nr in {1,2,3}" if tier == "quick" else "nc 1..40 x nr in {1,2,3,5}",
            "axes": {n: [repr(x) for x in v] for n, v in AXES}, "configurations": len(configs(tier)),
            "deviation_bound": 2, "engines": ["numpy", "normal"]}


BIG_SHAPES = [(3, 100), (16, 255), (16, 256), (16, 1000), (3, 1000), (16, 1024), (8, 2000), (16, 4096)]


def points(tier):
    cfgs = configs(tier)
    pts = []
    # row counts at and around round numbers, wrapped and unwrapped (size-dependent buffering must not lose rows)
    base = [i for i, c in enumerate(cfgs) if all(c[n] == v[0] for n, v in AXES if n != "wrap")]
    for (nc, nr) in BIG_SHAPES:
        for ci in base:
            pts.append([nc, nr, ci, "numpy", tier])
    for (nc, nr) in shapes(tier):
        for ci in range(len(cfgs)):
            for eng in ("numpy", "normal"):
                pts.append([nc, nr, ci, eng, tier])
    return pts


_CFG = {}


def cfg_of(tier, ci):
    if tier not in _CFG:
        _CFG[tier] = configs(tier)
    return _CFG[tier][ci]


def matrix(nc, nr):
    m = np.empty((nr, nc))
    for i in range(nr):
        for j in range(nc):
            if j == 0:
                m[i, j] = IDX_PAL[(i + nc) % len(IDX_PAL)]
            elif nc >= 3 and j == nc - 1:
                m[i, j] = np.nan
            else:
                m[i, j] = VAL_PAL[(i * nc + j + nr) % len(VAL_PAL)]
    return m


def mnemonics(nc, kind):
    """'numeric': every mnemonic after the first is an integer equal to ANOTHER curve's position."""
    if kind == "numeric" and nc >= 3:
        return ["DEPT"] + [str(((j) % (nc - 1)) + 1) for j in range(1, nc)]
    return ["C%d" % j for j in range(nc)]


def quantum(fmt, x):
    s = fmt % x
    d = Decimal(s)
    return Decimal(1).scaleb(d.as_tuple().exponent)


def check_point(pt):
    nc, nr, ci, eng, tier = pt
    cfg = dict(cfg_of(tier, ci))
    cfg.pop("_dev", None)
    m = matrix(nc, nr)
    las = lasio.LASFile()
    names = mnemonics(nc, cfg["names"])
    for j in range(nc):
        las.append_curve(names[j], m[:, j].copy(), unit="U")
    if cfg["origin"] != "built":
        s0 = io.StringIO()
        las.write(s0, version=2.0, fmt="%.3f")
        las = lasio.read(s0.getvalue(), mnemonic_case=cfg["origin"][5:])
        if len(las.curves) != nc or any(len(c.data) != nr for c in las.curves):
            return [{"clause": "origin-read-shape", "sig": "origin=" + cfg["origin"], "witness": {"point": pt, "text": s0.getvalue()},
                     "expected": [nr, nc], "observed": [[len(c.data) for c in las.curves]], "size": nc * 10 + nr,
                     "repro": "write() of %d curves x %d rows with defaults, then lasio.read(text, mnemonic_case=%r)" % (nc, nr, cfg["origin"][5:])}], True, "ok", {}, 2
        for j, c in enumerate(list(las.curves)):
            c.data = m[:, j].copy()
        names = [n.upper() for n in names]  # the read-back below uses the default mnemonic_case="upper"
    kw = {k: cfg[k] for k in ("version", "wrap", "fmt", "len_numeric_field", "spacer", "lhs_spacer", "data_width",
                              "mnemonics_header", "data_section_header")}
    cf = cfg["column_fmt"]
    if cf == "first":
        kw["column_fmt"] = {0: "%.3f"}
    elif cf == "last":
        kw["column_fmt"] = {nc - 1: "%.1f"}
    elif cf == "finer-second":
        kw["column_fmt"] = {min(1, nc - 1): "%.7f"}   # a column printed with MORE digits than fmt
    if cfg.get("null") is not None:
        las.well["NULL"].value = cfg["null"]
    if cfg["dlm"]:
        las.version.DLM = cfg["dlm"]
        kw["spacer"] = {"COMMA": ",", "TAB": "\t"}[cfg["dlm"]]
    nontriv = cfg["wrap"] or nc >= 2 or any(cfg[n] != v[0] for n, v in AXES)
    ptd = {"nc": nc, "nr": nr, "cfg": cfg, "engine": eng}

    def V(clause, expected, observed, text=None, extra=""):
        feats = ["wrap" if cfg["wrap"] else "nowrap"]
        if cfg["dlm"]:
            feats.append("dlm=" + cfg["dlm"])
        if extra:
            feats.append(extra)
        return {"clause": clause, "sig": "+".join(feats), "witness": {"point": pt, "decoded": ptd, "text": text},
                "expected": expected, "observed": observed,
                "size": nc * 10 + nr + 1000 * sum(cfg[n] != v[0] for n, v in AXES),
                "repro": "import lasio,numpy as np,io; las=lasio.LASFile(); m=np.array(%r)\nfor j in range(%d): las.append_curve(%r[j], m[:,j])\ns=io.StringIO(); las.write(s, **%r); print(lasio.read(s.getvalue(), engine=%r).data)"
                         % (m.tolist(), nc, mnemonics(nc, cfg["names"]), kw, eng)}

    try:
        s = io.StringIO()
        las.write(s, **kw)
        text = s.getvalue()
    except Exception as e:
        return [V("write-raises", "write succeeds", "%s: %s" % (type(e).__name__, str(e)[:150]))], nontriv, "write-raise", {}, 1
    try:
        back = lasio.read(text, engine=eng)
    except Exception as e:
        long_tok = any(len(t) > cfg["data_width"] for t in text.split("~A")[-1].split())
        return [V("read-raises", "own output readable", "%s: %s" % (type(e).__name__, str(e)[:150]), text,
                  "long-token" if long_tok else "")], nontriv, "read-raise", {}, 2
    vio = []
    back_list = list(back.curves)
    if len(back.curves) != nc:
        vio.append(V("curve-count", nc, len(back.curves), text))
    elif back.keys() != names:
        vio.append(V("mnemonics", names, back.keys(), text))
    else:
        lens = {len(c.data) for c in back.curves}
        if lens != {nr}:
            vio.append(V("row-count", nr, sorted(lens), text))
        else:
            for j in range(nc):
                fmt = kw.get("column_fmt", {}).get(j, kw["fmt"])
                col = np.asarray(back_list[j].data)  # positional access by iteration, never through a lookup
                if col.dtype.kind != "f":
                    vio.append(V("dtype", "float column", str(col.dtype), text))
                    break
                bad = False
                for i in range(nr):
                    x = m[i, j]
                    r = col[i]
                    if np.isnan(x):
                        if not np.isnan(r):
                            vio.append(V("nan-lost", {"cell": [i, j]}, float(r), text))
                            bad = True
                        continue
                    if np.isnan(r):
                        vio.append(V("index-nulled" if j == 0 else "finite-became-nan", {"cell": [i, j], "value": float(x), "fmt": fmt}, "nan", text))
                        bad = True
                        continue
                    q = quantum(fmt, x)
                    tol = float(q) / 2 * (1 + 1e-12) + abs(float(np.spacing(r)))
                    if not abs(float(r) - float(x)) <= tol:
                        vio.append(V("value-tolerance", {"cell": [i, j], "value": float(x), "fmt": fmt, "tol": tol}, float(r), text))
                        bad = True
                if bad:
                    break
    if vio or eng != "numpy" or nr > 50:
        return vio[:2], nontriv, "ok", {}, 2
    # second stage: the same object, edited in place after it has been written once, written again
    m2 = np.roll(m, 1, axis=0) if nr > 1 else m.copy()
    m2 = np.where(np.isnan(m2), m2, m2 * 1.0)
    for j, c in enumerate(list(las.curves)):
        col = m2[:, j].copy()
        if j > 0 and nr >= 1:
            col[0] = 0.5 if np.isnan(m[0, j]) else (np.nan if j != 0 else col[0])
        c.data[...] = col
        m2[:, j] = col
    try:
        s = io.StringIO()
        las.write(s, **kw)
        back2 = lasio.read(s.getvalue(), engine=eng)
    except Exception as e:
        return [V("second-write-raises", "write/read after an in-place edit succeed", "%s: %s" % (type(e).__name__, str(e)[:150]))], nontriv, "ok", {}, 4
    b2 = list(back2.curves)
    if len(b2) != nc or any(len(c.data) != nr for c in b2):
        return [V("second-write-shape", [nr, nc], [[len(c.data) for c in b2]], s.getvalue())], nontriv, "ok", {}, 4
    for j in range(nc):
        fmt = kw.get("column_fmt", {}).get(j, kw["fmt"])
        if np.asarray(b2[j].data).dtype.kind != "f":
            return [V("second-write-dtype", "float column %d" % j, str(np.asarray(b2[j].data).dtype), s.getvalue())], nontriv, "ok", {}, 4
        for i in range(nr):
            x, r = m2[i, j], b2[j].data[i]
            if np.isnan(x) != np.isnan(r):
                return [V("second-write-stale", {"cell": [i, j], "memory": repr(float(x))}, repr(float(r)), s.getvalue())], nontriv, "ok", {}, 4
            if not np.isnan(x):
                tol = float(quantum(fmt, x)) / 2 * (1 + 1e-12) + abs(float(np.spacing(r)))
                if not abs(float(r) - float(x)) <= tol:
                    return [V("second-write-stale", {"cell": [i, j], "memory": float(x), "fmt": fmt}, float(r), s.getvalue())], nontriv, "ok", {}, 4
    return vio[:2], nontriv, "ok", {}, 4


def replay(witness):
    return check_point(witness["point"])[0]


e1.install(globals(), unit_size=300, sample_of=lambda pt: {"nc": pt[0], "nr": pt[1], "cfg": cfg_of(pt[4], pt[2]), "engine": pt[3]})
