"""C19 - ignore_header_errors makes header parsing tolerant and non-interfering.
E1: every junk line up to a length bound over a punctuation-heavy alphabet,
inserted at every line boundary of ~V, ~W, ~P and a custom section."""
import itertools

import numpy as np

import lasio
from lasio import exceptions

from ..core import canon, e1

PROPERTY = "C19"
LEVEL = "exploration"
RULE = (
    "five base files (2.0 with ~V ~W ~P ~X ~C ~A; one with duplicated mnemonics; one version 1.2; one LAS 3.0 with a ~Tops_Definition section; one made of terse lines without description or without period); junk = every string "
    "of length 1..3 (thorough 1..4) over {. : blank a 1 \" - ( ) # / E _ , ~} (never with a leading tilde) plus adversarial long lines (500 periods, 500 "
    "colons, quotes only, 5000 digits, ':.', '.:', '..:', parsable lines carrying 25-40 digit integers, 1e999, hex); inserted at every line boundary inside ~V, ~W, ~P and the "
    "custom section, one line at a time, the same line 2 / 19..23 / 40 / 100 times at one site, and all pairs (two junk lines at two sites) over the short strings and over eight parsable lines ('%' in the name, blank and literal UNKNOWN names, a 5000-character name, the name of a genuine item), the same line twice included; each text "
    "is read with and without ignore_header_errors; non-trivial = junk that is neither blank nor a '#' comment"
)
ASSUMPTIONS = [
    "junk never starts with '~' and never contains VERS, WRAP, DLM or NULL (the statement's exclusion; the alphabet cannot spell them)",
    "junk may add items and change session suffixes; genuine items are matched as an ordered subsequence by (original mnemonic, unit, value, description)",
    "~C is not a junk site (any parsable line there legitimately declares a curve)",
]

ALPHA = [".", ":", " ", "a", "1", '"', "-", "(", ")", "#", "/", "E", "_", ",", "~"]
LONG = ["." * 500, ":" * 500, '"' * 40, "'" * 40, "1" * 5000, ":.", ".:", "..:", ". .", ": :", "a" * 300 + ".", "." + "a" * 300,
        "a.b.c.d:e:f:g", "\t", "\t.\t:\t", "((((", "[[]]", "a b c d e f g h", "1.2.3.4:5:6", "%s %d {0}", "\\", "\\.\\:",
        # parsable lines whose value is far outside every machine number range
        "a. " + "9" * 25 + " : d", "X. 123456789012345678901234567890", "Q.U -" + "9" * 40 + " : big", "a. 1e999 : d", "a. -1E+4000 :",
        "9" * 30 + ". 1 : digits as name", "a." + "9" * 30 + " 5 : digits as unit", "a : " + "9" * 25, "a. 0x" + "F" * 20 + " : hex",
        "@.# $ : %", "junk.unit value : descr", ".u : d", "REC%. 100 : core recovery", "a%d. 1 : x", "%. 5 : p", "%(x)s.%s 1 : %%",
        "{0}.{1} {2} : {}", "A. 1 : same name as a genuine item",
        # a colon and a period, the period only after the colon; units made of brackets only
        "?? no idea : n.a. ??", "what : n.a.", "x : 1.5", "no.idea : a.b : c", "!!.[] ;; : --", ".()", "REMARK.[()] n/a : see below",
        "a.[] : b", "a.() 1 : c", "a.[[]] : d", "a.)( 1 : e", "a.( : f",
        # a tilde that is not the first non-blank character of the line (only a LEADING tilde makes a title line)
        # LAS 3.0 punctuation: pipes (association marker) and braces (format) in any number
        "NOTE. see : runs 1|2|3", ".:||", "a.b c : d | e | f", "T.M 1 : top | Tops[1] | x", "F.{F} 1 : {F10.4} | a", "| | |", "a.|b| c : d",
        "approx ~ 5 m of rathole", 'x "~" y', "a.~ 1 : d", "a. ~ : d", "TEMP.DEGC ~20 : approximately", "a~b.c~d e~f : g~h", "see ~Well above", "a : ~"]
# parsable junk inserted twice (same line at two sites, and every ordered pair): duplicates take another path than single items
PAIR_EXTRA = ["REC%. 100 : core recovery", "a%d. 1 : x", "%. 5 : p", "junk.unit value : descr", "A. 1 : same name as a genuine item",
              ". 3 : blank name", "UNKNOWN. 4 : literal unknown", "X" * 5000 + ". 1 : very long name"]

BASES = [
    ("~Version\nVERS. 2.0 : version\nWRAP. NO : wrap\n~Well\nSTRT.M 1.0 : start\nSTOP.M 3.0 : stop\nSTEP.M 1.0 : step\n"
     "NULL. -999.25 : null\nWELL. my well : name\n~Parameter\nP1.U 3.5 : first\nP2. text : second\n~Xtra\nQ1. 9 : q one\n"
     "Q2.X x y : q two\n~Curve\nDEPT.M : depth\nGR.GAPI 11 : gamma\n~ASCII\n1.0 10.5\n2.0 -999.25\n3.0 30.5\n"),
    ("~Version\nVERS. 2.0 : version\nWRAP. NO : wrap\n~Well\nSTRT.M 1.0 : start\nSTOP.M 2.0 : stop\nSTEP.M 1.0 : step\n"
     "NULL. -9999 : null\nA. 1 : first a\nA. 2 : second a\n. 3 : blank name\n~Parameter\nA.U 3.5 : a again\na.U 4.5 : lower a\n"
     "~Xtra\nA. 9 : a in custom\nA. 10 : a in custom again\n~Curve\nDEPT.M : depth\nGR.GAPI : gamma\nGR.GAPI : gamma 2\n"
     "~ASCII\n1.0 10.5 7\n2.0 -9999 8\n"),
    ("~Version\nVERS. 1.2 : version\nWRAP. NO : wrap\n~Well\nSTRT.M 1.0 : start\nSTOP.M 3.0 : stop\nSTEP.M 1.0 : step\n"
     "NULL. -999.25 : null\nWELL. name of well : W-12\nUWI. unique id : 0012345\n~Parameter\nP1.U 3.5 : first\n~Xtra\n"
     "Q1. 9 : q one\n~Curve\nDEPT.M : depth\nGR.GAPI : gamma\n~ASCII\n1.0 10.5\n2.0 -999.25\n3.0 30.5\n"),
    # a LAS 3.0 file (sections with 3.0-style titles, associations after '|')
    ("~Version\nVERS. 3.0 : version\nWRAP. NO : wrap\nDLM. SPACE : delimiter\n~Well\nSTRT.M 1.0 : start\nSTOP.M 3.0 : stop\nSTEP.M 1.0 : step\n"
     "NULL. -999.25 : null\nWELL. my well : name\n~Parameter\nP1.U 3.5 : first\n~Tops_Definition\nTOPN.M : top name {S}\nTOPT.M : top depth {F} | x\n"
     "~Curve\nDEPT.M : depth\nGR.GAPI : gamma\n~ASCII\n1.0 10.5\n2.0 -999.25\n3.0 30.5\n"),
    # terse genuine lines: no colon (no description field), no period (NAME : VALUE)
    ("~Version\nVERS. 2.0\nWRAP. NO\n~Well\nSTRT.M 1.0\nSTOP.M 2.0\nSTEP.M 1.0\nNULL. -999.25\nCOMP.  ACME OIL\nDRILLED : 12/11/2010\n"
     "~Parameter\nRUN : 3\nBHT.DEGC 35.5\n~Xtra\nNOTE : free form\nQ1. 9\n~Curve\nDEPT.M\nGR.GAPI\n~ASCII\n1.0 10.5\n2.0 -999.25\n"),
]


def sites_of(text):
    """Indices k (insert before line k) inside ~V, ~W, ~P and the custom section."""
    lines = text.split("\n")[:-1]
    out = []
    cur = None
    for i, ln in enumerate(lines):
        if ln.startswith("~"):
            prev = cur
            cur = ln[1].upper()
            if prev is not None and (prev in ("V", "W", "P") or prev not in "VWCPOA"):
                out.append(i)  # end of the previous section
            continue
        if cur is not None and (cur in ("V", "W", "P") or cur not in "VWCPOA"):
            out.append(i)
    return lines, out


CORE_ALPHA = [".", ":", " ", "a", "1", '"', "(", ")", "-"]


def junk_strings(maxlen, full_upto=None):
    """Strings of length 1..maxlen; lengths above `full_upto` are built from the structural sub-alphabet only."""
    out = []
    for k in range(1, maxlen + 1):
        alpha = ALPHA if (full_upto is None or k <= full_upto) else CORE_ALPHA
        for t in itertools.product(alpha, repeat=k):
            if "".join(t).lstrip().startswith("~"):
                continue  # a leading tilde makes a section title, which the statement excludes
            out.append("".join(t))
    return out


def bounds(tier):
    return {"bases": len(BASES), "alphabet": ALPHA, "max_len": "3 (length 3 over the 9 structural symbols)" if tier == "quick" else "4 (length 4 over the 9 structural symbols)", "long_lines": len(LONG),
            "sites_per_base": [len(sites_of(b)[1]) for b in BASES], "pairs": "length<=1 x all site pairs" if tier == "quick" else "length<=1 plus 36 structural length-2 strings x all site pairs"}


def points(tier):
    pts = []
    maxlen = 3 if tier == "quick" else 4
    for bi, b in enumerate(BASES):
        _, sites = sites_of(b)
        for si in range(len(sites)):
            pts.append(["single", bi, si, maxlen])
        if tier == "quick" and bi in (1, 2, 3):
            continue  # quick: pairs on the plain and on the terse base file only
        for si in range(len(sites)):
            for sj in range(si, len(sites)):
                pts.append(["pair", bi, si, sj, 1 if tier == "quick" else 2])
    return pts


_REF = {}


def reference(bi):
    if bi not in _REF:
        las = lasio.read(BASES[bi])
        _REF[bi] = (genuine(las), [canon.array_tag(c.data, "strict") for c in las.curves])
    return _REF[bi]


def genuine(las):
    out = {}
    for name, sec in las.sections.items():
        if isinstance(sec, str):
            out[name] = sec
        else:
            out[name] = [(i.original_mnemonic, i.unit, canon.value_tag(i.value, "strict"), i.descr) for i in sec]
    return out


def is_subsequence(want, got):
    it = iter(got)
    return all(any(w == g for g in it) for w in want)


def judge(bi, text, junk_lines, ref=None):
    """Returns list of (clause, expected, observed)."""
    ref_items, ref_data = ref if ref is not None else reference(bi)
    bad = []
    try:
        las = lasio.read(text, ignore_header_errors=True)
    except Exception as e:
        return [("raises-with-flag", "no exception", "%s: %s" % (type(e).__name__, str(e)[:160]))], 2
    got = genuine(las)
    for name, want in ref_items.items():
        g = got.get(name)
        if isinstance(want, str):
            if g != want:
                bad.append(("other-text-changed", want, g))
            continue
        if g is None or isinstance(g, str):
            bad.append(("section-lost:" + name, [w[0] for w in want], repr(g)[:80]))
            continue
        if name == "Curves":
            if g != want:
                bad.append(("curves-changed", want, g))
        elif not is_subsequence(want, g):
            bad.append(("genuine-items-changed:" + name, want, g))
    data = [canon.array_tag(c.data, "strict") for c in las.curves]
    if data != ref_data:
        bad.append(("data-changed", "bit-identical curve data", [np.asarray(c.data).tolist() for c in las.curves]))
    # without the flag: same result, or LASHeaderError naming a junk line
    try:
        las2 = lasio.read(text)
        if genuine(las2) != got:
            bad.append(("flag-changes-result", "same result with and without the flag when no error is raised", "differs"))
    except exceptions.LASHeaderError as e:
        msg = str(e)
        if not any(j.strip() in msg for j in junk_lines if j.strip()):
            bad.append(("error-does-not-name-line", [j[:60] for j in junk_lines], msg[:200]))
    except Exception as e:
        bad.append(("wrong-exception-without-flag", "LASHeaderError naming the line", "%s: %s" % (type(e).__name__, str(e)[:160])))
    return bad, 2


def insert(lines, pairs):
    out = []
    ins = {}
    for k, s in pairs:
        ins.setdefault(k, []).append(s)
    for i, ln in enumerate(lines):
        out.extend(ins.get(i, []))
        out.append(ln)
    out.extend(ins.get(len(lines), []))
    return "\n".join(out) + "\n"


_REFDATA = {}


def _ref_isolated(bi):
    """The reference read of the clean base file runs in a forked child: the process that judges junk texts must
    not have parsed the clean file before (state remembered from it could mask what the junk line does)."""
    from ..core import isolate
    if bi not in _REFDATA:
        _REFDATA[bi] = isolate.call(reference, bi)
    return _REFDATA[bi]


def _judge_cases(bi, lines, cases, ref, pt, first_index):
    out = []
    evals = 0
    nontriv = 0
    for k, pairs in enumerate(cases):
        junk = [j for _, j in pairs]
        text = insert(lines, pairs)
        bad, n = judge(bi, text, junk, ref)
        evals += n
        if any(j.strip() and not j.strip().startswith("#") for j in junk):
            nontriv += 1
        for clause, exp, obs in bad:
            out.append({"clause": clause, "sig": "base%d:%s" % (bi, pt[0]),
                        "witness": {"point": pt, "case": first_index + k, "junk": junk, "text": text if len(text) < 3000 else text[:3000] + "..."},
                        "expected": exp, "observed": obs, "size": sum(len(j) for j in junk) + 100 * len(junk),
                        "repro": "import lasio; lasio.read(%r, ignore_header_errors=True)   # in a fresh interpreter" % (text if len(text) < 2000 else "<long>")})
    return out, evals, nontriv


def check_point(pt, only=None):
    from ..core import isolate
    kind, bi = pt[0], pt[1]
    lines, sites = sites_of(BASES[bi])
    ref = _ref_isolated(bi)
    if kind == "single":
        short = [[(sites[pt[2]], j)] for j in junk_strings(pt[3], 2 if pt[3] == 3 else 3)]
        longc = [[(sites[pt[2]], j)] for j in LONG]
        # many junk lines in one section: the same unparsable / parsable line 2, 19..23, 40 and 100 times at this site
        for j in ("junk", ":", "1.2.3.4:5:6", "a b c d e f g h", "Z9. 1 : parsable"):
            for rep in (2, 19, 20, 21, 22, 23, 40, 100):
                longc.append([(sites[pt[2]], j)] * rep)
    else:
        js = junk_strings(1)
        if pt[4] >= 2:
            js = js + [a + b for a in ".: a1\"" for b in ".: a1\""]
        short = [[(sites[pt[2]], a), (sites[pt[3]], b)] for a in js for b in js]
        longc = [[(sites[pt[2]], a), (sites[pt[3]], b)] for a in PAIR_EXTRA for b in PAIR_EXTRA]
    vio, evals, nontriv = [], 0, 0
    if only is not None:
        allc = short + longc
        v, e, t = isolate.call(_judge_cases, bi, lines, [allc[only]], ref, pt, only)
        return e1.compress(v), (repr(pt), t), kind, {}, e
    # the short strings share one fresh process; every structured line gets a fresh process of its own
    v, e, t = isolate.call(_judge_cases, bi, lines, short, ref, pt, 0)
    vio += v; evals += e; nontriv += t
    if kind == "single":
        for k, case in enumerate(longc):
            v, e, t = isolate.call(_judge_cases, bi, lines, [case], ref, pt, len(short) + k)
            vio += v; evals += e; nontriv += t
    else:
        v, e, t = isolate.call(_judge_cases, bi, lines, longc, ref, pt, len(short))
        vio += v; evals += e; nontriv += t
    return e1.compress(vio), (repr(pt), nontriv), kind, {}, evals


def _old_check_point(pt, only=None):
    kind, bi = pt[0], pt[1]
    lines, sites = sites_of(BASES[bi])
    vio = []
    evals = 0
    nontriv = 0
    if kind == "single":
        cases = [[(sites[pt[2]], j)] for j in junk_strings(pt[3]) + LONG]
    else:
        js = junk_strings(1)
        if pt[4] >= 2:
            # thorough: the single symbols plus the two-symbol strings built from the structural characters
            js = js + [a + b for a in ".: a1\"" for b in ".: a1\""]
        cases = [[(sites[pt[2]], a), (sites[pt[3]], b)] for a in js for b in js]
        cases += [[(sites[pt[2]], a), (sites[pt[3]], b)] for a in PAIR_EXTRA for b in PAIR_EXTRA]
    for ci, pairs in enumerate(cases):
        if only is not None and ci != only:
            continue
        junk = [j for _, j in pairs]
        text = insert(lines, pairs)
        bad, n = judge(bi, text, junk)
        evals += n
        if any(j.strip() and not j.strip().startswith("#") for j in junk):
            nontriv += 1
        for clause, exp, obs in bad:
            vio.append({"clause": clause, "sig": "base%d:%s" % (bi, kind),
                        "witness": {"point": pt, "case": ci, "junk": junk, "text": text if len(text) < 3000 else text[:3000] + "..."},
                        "expected": exp, "observed": obs, "size": sum(len(j) for j in junk) + 100 * len(junk),
                        "repro": "import lasio; lasio.read(%r, ignore_header_errors=True)" % (text if len(text) < 2000 else "<long>")})
    return e1.compress(vio), (repr(pt), nontriv), kind, {}, evals


def replay(witness):
    return check_point(witness["point"], only=witness["case"])[0]


def units(tier, seed):
    _P[tier] = points(tier)
    return [{"tier": tier, "i": i} for i in range(len(_P[tier]))]


_P = {}


def run_unit(unit):
    tier = unit["tier"]
    if tier not in _P:
        _P[tier] = points(tier)
    pt = _P[tier][unit["i"]]
    vio, nt, oc, counters, evals = check_point(pt)
    return {"evals": evals, "nontrivial": nt[1], "outcomes": {oc: 1}, "violations": vio,
            "samples": [{"point": pt}], "extra": counters}
