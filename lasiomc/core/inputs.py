"""Input families shared by the write-side round-trip checks (C11, C12, C16, C17)."""
import io

from ..checks import c09


def corpus(max_lines=None):
    out = []
    for name, text in c09.load_corpus():
        if max_lines and text.count("\n") > max_lines:
            continue
        out.append(("corpus:" + name, text))
    return out


MUTS = (
    [["dup", "W", 4], ["dup", "W", 3], ["dup_end", "W", 0], ["dup", "P", 0], ["dup", "C", 1], ["dup_end", "C", 0],
     ["blank", "P", 1], ["blank", "C", 1], ["blank", "W", 4],
     ["unit", "W", 0, ".1IN"], ["unit", "C", 0, ".1IN"], ["unit", "W", 1, "FT"], ["unit", "C", 0, "ft"], ["unit", "P", 0, "K/M3"],
     ["empty", "P", 0], ["empty", "W", 4], ["empty", "W", 5], ["empty", "C", 1],
     ["long_value", "W", 4], ["long_value", "P", 1], ["long_descr", "C", 1], ["long_descr", "W", 0], ["long_mnemonic", "P", 0],
     ["long_mnemonic", "C", 1], ["case", "W", 4], ["case", "C", 1], ["case", "W", 3],
     ["empty_long_unit", "P", 0], ["empty_long_unit", "W", 4], ["empty_long_unit", "P", 1], ["dup_extra", "V", 0], ["dup_extra", "P", 0],
     ["unit", "P", 0, "[[[m]]]"], ["unit", "P", 0, "[m]"], ["numunit_empty", "P", 0], ["unit", "W", 2, ".1IN"]]
)

TEXT_CURVE_INPUTS = [
    ("textcurve:hyphen", "~Version\nVERS. 2.0 : v\nWRAP. NO : w\n~Well\nSTRT.M 1.0 : start\nSTOP.M 8.0 : stop\nSTEP.M 1.0 : step\n"
     "NULL. -999.25 : null\n~Curve\nDEPT.M : depth\nLITH. : lithology\nGR.GAPI : gamma\nZONE. : zone name\nRHOB.G/C3 : density\n~ASCII\n"
     + "".join("%d.0 %s %d.5 %s %d.25\n" % (i, ["SANDSTONE-SHALE", "LIMESTONE", "SHALE-SILT-SAND", "DOLOMITE-X"][i % 4], 10 * i,
                                              ["UPPER-A", "LOWER-B-2"][i % 2], i) for i in range(1, 9))),
    ("textcurve:wide", "~Version\nVERS. 2.0 : v\nWRAP. NO : w\n~Well\nSTRT.M 1.0 : start\nSTOP.M 3.0 : stop\nSTEP.M 1.0 : step\n"
     "NULL. -999.25 : null\n~Curve\nDEPT.M : depth\n" + "".join("C%d. : c\n" % j for j in range(1, 9)) + "TXT. : text\n~ASCII\n"
     + "".join("%d.0 " % i + " ".join("%d.125" % (100 * j + i) for j in range(1, 9)) + " WELL-SITE-%d\n" % i for i in range(1, 4))),
]


def generated(tier="quick"):
    out = []
    shapes = [(1, 1, 1), (2, 2, 2), (3, 3, 3), (2, 3, 2), (3, 2, 3), (4, 4, 21)]
    for (d, c, r) in shapes:
        for wrap in ("NO", "YES"):
            if wrap == "YES" and d != c:
                continue
            for dlm in (None, "COMMA", "TAB"):
                p = {"d": d, "c": c, "r": r, "wrap": wrap, "dlm": dlm}
                out.append(("gen:%r" % (sorted(p.items()),), c09.render_gen(p)))
    base_shapes = [(3, 3, 3)] if tier == "quick" else [(3, 3, 3), (2, 2, 1), (3, 4, 2)]
    for (d, c, r) in base_shapes:
        for wrap in ("NO", "YES"):
            if wrap == "YES" and d != c:
                continue
            for mut in MUTS:
                p = {"d": d, "c": c, "r": r, "wrap": wrap, "dlm": None, "mut": mut}
                out.append(("mut:%r" % (sorted((k, str(v)) for k, v in p.items()),), c09.render_gen(p)))
    return out


def version_shapes():
    """Sources whose ~Version section is unusual: VERS 1.0 (same ~Well layout as 1.2), VERS/WRAP lines given twice,
    a 2.1 / 3.0 version number over 2.0 content; and ~Other text ending in blank lines."""
    out = []
    body = ("~Curve\nDEPT.M : depth\nGR.GAPI : gamma\n~Parameter\nP1.U 3.5 : a parameter\n~Other\nsome text\n"
            "~ASCII\n1.0 10.5\n2.0 -999.25\n3.0 30.5\n")
    well20 = "~Well\nSTRT.M 1.0 : start\nSTOP.M 3.0 : stop\nSTEP.M 1.0 : step\nNULL. -999.25 : null\nCOMP. ACME : company\nWELL. W-1 : well\n"
    well12 = "~Well\nSTRT.M 1.0 : start\nSTOP.M 3.0 : stop\nSTEP.M 1.0 : step\nNULL. -999.25 : null\nCOMP. company : ACME\nWELL. well : W-1\n"
    for vers, well in (("1.0", well12), ("1.2", well12), ("2.0", well20), ("2.1", well20), ("3.0", well20)):
        out.append(("versions:vers=%s" % vers, "~Version\nVERS. %s : version\nWRAP. NO : wrap\n" % vers + well + body))
    out.append(("versions:dup-wrap", "~Version\nVERS. 2.0 : version\nWRAP. NO : wrap\nWRAP. NO : wrap again\n" + well20 + body))
    out.append(("versions:dup-vers", "~Version\nVERS. 2.0 : version\nVERS. 2.0 : version again\nWRAP. NO : wrap\n" + well20 + body))
    out.append(("versions:dup-vers-12", "~Version\nVERS. 1.2 : version\nVERS. 1.2 : version again\nWRAP. NO : wrap\n" + well12 + body))
    out.append(("versions:no-wrap-item", "~Version\nVERS. 2.0 : version\n" + well20 + body))
    out.append(("versions:wrap-first", "~Version\nWRAP. NO : wrap\nVERS. 2.0 : version\n" + well20 + body))
    for nblank in (1, 2, 3):
        out.append(("other:trailing-blank-%d" % nblank, "~Version\nVERS. 2.0 : version\nWRAP. NO : wrap\n" + well20
                    + body.replace("some text\n", "some text\nmore text\n" + "\n" * nblank)))
    # the WRAP flag in another letter case over properly wrapped data, curve counts that are multiples of the 7 fields a
    # default 79-character line holds
    for flag, nc in (("Yes", 14), ("yes", 7), ("YES", 14), ("Yes", 5)):
        curves = "".join("C%d.U : curve %d\n" % (j, j) for j in range(1, nc))
        rows = ""
        for i in range(3):
            vals = ["%d.5" % (100 * (i + 1) + j) for j in range(nc)]
            rows += vals[0] + "\n" + "".join(" ".join(vals[k:k + 7]) + "\n" for k in range(1, nc, 7))
        out.append(("versions:wrap-flag-%s-%d" % (flag, nc), "~Version\nVERS. 2.0 : version\nWRAP. %s : wrap\n" % flag + well20
                    + "~Curve\nDEPT.M : depth\n" + curves + "~ASCII\n" + rows))
    # many curves (a LAS 1.2 data line then exceeds 255 characters; 28 and 35 are multiples of the 7 fields of a 79-character line)
    for vers, wl in (("1.2", well12), ("2.0", well20)):
        for nc in (24, 28, 35):
            curves = "".join("C%d.U : curve %d\n" % (j, j) for j in range(1, nc))
            rows = "".join(" ".join("%d.5" % (100 * (i + 1) + j) for j in range(nc)) + "\n" for i in range(3))
            out.append(("versions:wide-%s-%d" % (vers, nc), "~Version\nVERS. %s : version\nWRAP. NO : wrap\n" % vers + wl
                        + "~Curve\nDEPT.M : depth\n" + curves + "~ASCII\n" + rows))
    # header values with runs of blanks / tabs inside (2, 5 and 9 blanks, a tab)
    out.append(("versions:value-blank-runs", "~Version\nVERS. 2.0 : version\nWRAP. NO : wrap\n" + well20.replace(
        "COMP. ACME : company", "COMP. ACME  OIL     AND         GAS\tLTD : company").replace("WELL. W-1 : well", "LOC. 12-34-56     W5M : location\nWELL. W-1 : well")
        + body.replace("P1.U 3.5 : a parameter", "P1.U 3.5 : a parameter\nRMK. see     run  2 : remark     with  blanks")))
    # index-curve unit x STRT/STOP/STEP units (present, absent, disagreeing)
    for cu in ("", "M", "FT"):
        for (u1, u2, u3) in (("M", "M", "M"), ("M", "", ""), ("M", "FT", ""), ("", "", "M"), ("", "", "")):
            out.append(("units:curve=%s:strt=%s:stop=%s:step=%s" % (cu, u1, u2, u3),
                        "~Version\nVERS. 2.0 : version\nWRAP. NO : wrap\n"
                        + well20.replace("STRT.M", "STRT." + u1).replace("STOP.M", "STOP." + u2).replace("STEP.M", "STEP." + u3)
                        + body.replace("DEPT.M : depth", "DEPT.%s : depth" % cu)))
    out.append(("other:inner-blank", "~Version\nVERS. 2.0 : version\nWRAP. NO : wrap\n" + well20 + body.replace("some text\n", "some text\n\n\nmore text\n")))
    return out


def all_inputs(tier="quick"):
    return generated(tier) + TEXT_CURVE_INPUTS + version_shapes() + corpus(600 if tier == "quick" else None)


def well_version_family():
    """~Well items whose value/description order depends on the version and mnemonic,
    in a 1.2 source and in a 2.0 source (C12's special-attention axis)."""
    out = []
    extras = [("COMP", "", "ACME Drilling", "company"), ("WELL", "", "Well 12-34", "well name"),
              ("X", "m", "42.5", "custom item"), ("Null", "", "-999.25", "second null"),
              ("null", "", "-999.25", "lower-case null"), ("", "", "blank name value", "blank name descr"),
              ("UWI", "", "0012345", "unique id"), ("Strt2", "ft", "12", "looks like strt")]
    for ver in ("1.2", "2.0"):
        for k in range(len(extras) + 1):
            chosen = extras if k == len(extras) else [extras[k]]
            lines = ["~Version", "VERS. %s : version" % ver, "WRAP. NO : wrap", "~Well",
                     "STRT.M 1.0 : start", "STOP.M 3.0 : stop", "STEP.M 1.0 : step", "NULL. -999.25 : null"]
            for (mn, un, va, de) in chosen:
                if ver == "1.2":
                    if mn in ("Null", "null"):
                        # reader decides the order by the (case-mapped) name: NULL / null are value:descr in 1.2
                        lines.append("%s.%s %s : %s" % (mn, un, va, de))
                    else:
                        lines.append("%s.%s %s : %s" % (mn, un, de, va))
                else:
                    lines.append("%s.%s %s : %s" % (mn, un, va, de))
            lines += ["~Curve", "DEPT.M : depth", "GR.GAPI : gamma", "~Parameter", "P1.U 3.5 : a parameter",
                      "~ASCII", "1.0 10.5", "2.0 -999.25", "3.0 30.5"]
            out.append(("wellver:%s:%d" % (ver, k), "\n".join(lines) + "\n"))
    # the same sections with empty descriptions and long values (each item in turn the widest of its section)
    for ver in ("1.2", "2.0"):
        for long_item in ("STRT", "NULL", "COMP", None):
            lines = ["~Version", "VERS. %s :" % ver, "WRAP. NO :", "~Well"]
            for mn, un, va in (("STRT", "M", "1670.0"), ("STOP", "M", "1660.0"), ("STEP", "M", "-0.125"), ("NULL", "", "-999.25"),
                               ("COMP", "", "ACME"), ("WELL", "", "W-1")):
                if mn == long_item:
                    va = va + "0000000" if mn in ("STRT", "NULL") else "A VERY LONG COMPANY NAME INDEED"
                if ver == "1.2" and mn in ("COMP", "WELL"):
                    lines.append("%s.%s  : %s" % (mn, un, va))
                else:
                    lines.append("%s.%s %s :" % (mn, un, va))
            lines += ["~Curve", "DEPT.M :", "GR.GAPI :", "~ASCII", "1670.0 10.5", "1665.0 -999.25", "1660.0 30.5"]
            out.append(("wellver-nodescr:%s:%s" % (ver, long_item), "\n".join(lines) + "\n"))
    return out


_PRELUDE = {"done": False}


def process_prelude():
    """Once per process, before a check's first point: many OTHER files are read (the small example files incl. the
    LAS 3.0 samples, texts with unusual line shapes, version shapes) with assorted options.  Reading one file must not
    change how a later, unrelated text is parsed; a check that calls this explores its points in a process with a
    reading history instead of a pristine one (the replay of a witness runs the same prelude first)."""
    if _PRELUDE["done"]:
        return
    _PRELUDE["done"] = True
    import lasio
    from ..checks import c10
    texts = list(c10.PURE_TEXTS) + [t for _, t in version_shapes()] + [t for _, t in corpus(200)]
    for k, t in enumerate(texts):
        for kw in ({}, {"mnemonic_case": "lower"}, {"ignore_header_errors": True, "read_policy": (), "null_policy": ["NULL", "9999.25"]})[: 1 + (k % 3)]:
            try:
                lasio.read(t, **kw)
            except Exception:
                pass
