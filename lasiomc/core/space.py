"""E1: exhaustive enumeration of finite configuration spaces (DESIGN.md 2.2).

An axis list is an ordered list of (name, [default, alt1, alt2, ...]).
Enumerations are deterministic, so a work unit is just an index range.
"""
import itertools


def full(axes):
    names = [n for n, _ in axes]
    for combo in itertools.product(*[vals for _, vals in axes]):
        yield dict(zip(names, combo))


def count_full(axes):
    n = 1
    for _, vals in axes:
        n *= len(vals)
    return n


def deviations(axes, k, fixed=None):
    """Every point differing from the all-default point on at most k axes,
    ordered by number of deviations (0, then 1, then 2, ...)."""
    names = [n for n, _ in axes]
    base = {n: vals[0] for n, vals in axes}
    if fixed:
        base.update(fixed)
    free = [(n, vals) for n, vals in axes if not fixed or n not in fixed]
    for d in range(0, k + 1):
        for chosen in itertools.combinations(range(len(free)), d):
            alts = [free[i][1][1:] for i in chosen]
            for combo in itertools.product(*alts):
                pt = dict(base)
                for i, v in zip(chosen, combo):
                    pt[free[i][0]] = v
                pt["_dev"] = d
                yield pt


def union_points(*iters):
    """Concatenate enumerations, dropping duplicates (by sorted items)."""
    seen = set()
    for it in iters:
        for pt in it:
            key = tuple(sorted((k, repr(v)) for k, v in pt.items() if k != "_dev"))
            if key in seen:
                continue
            seen.add(key)
            yield pt


def chunks(n, size):
    """Index ranges [a, b) covering range(n)."""
    return [(a, min(a + size, n)) for a in range(0, n, size)]


def compositions(n):
    """All ways of cutting n tokens into consecutive non-empty groups."""
    if n == 0:
        yield ()
        return
    for cuts in itertools.product((0, 1), repeat=n - 1):
        sizes = []
        cur = 1
        for c in cuts:
            if c:
                sizes.append(cur)
                cur = 1
            else:
                cur += 1
        sizes.append(cur)
        yield tuple(sizes)


def seq_upto(alphabet, n, min_len=0):
    for l in range(min_len, n + 1):
        for s in itertools.product(alphabet, repeat=l):
            yield s
