"""Helpers for the write-side round-trip checks (C11, C12, C16)."""
import io

import lasio

from . import canon, space

W_AXES = [
    ("version", [None, 1.2, 2.0]),
    ("wrap", [None, True, False]),
    ("fmt", ["%.5f", "%.2f", "%.0f", "%g", "%.3e", "%.10g"]),
    ("column_fmt", [None, "first", "last"]),
    ("len_numeric_field", [None, -1, 5, 20]),
    ("spacer", [" ", "   ", "\t"]),
    ("lhs_spacer", [" ", "", "   "]),
    ("data_width", [79, 40, 20, 200]),
    ("mnemonics_header", [False, True]),
    ("data_section_header", ["~ASCII", "~A", "~A Log data"]),
]


def configs(k, same_precision=False):
    axes = W_AXES
    if same_precision:
        axes = [(n, v) for n, v in W_AXES if n not in ("fmt", "column_fmt")]
    out = []
    for c in space.deviations(axes, k):
        c = dict(c)
        c.pop("_dev", None)
        if same_precision:
            c["fmt"] = "%.5f"
            c["column_fmt"] = None
        out.append(c)
    return out


def kwargs_for(cfg, ncurves):
    kw = {k: v for k, v in cfg.items() if k not in ("column_fmt",)}
    if cfg.get("column_fmt") == "first":
        kw["column_fmt"] = {0: "%.3f"}
    elif cfg.get("column_fmt") == "last":
        kw["column_fmt"] = {max(ncurves - 1, 0): "%.1f"}
    return kw


def write_text(las, cfg):
    s = io.StringIO()
    las.write(s, **kwargs_for(cfg, len(las.curves)))
    return s.getvalue()


def tag(las, skip=()):
    return canon.las_tag(las, "numeric", session=False, skip_items=skip)
