"""Scaffolding shared by the E1 (input-space enumeration) checks.

A check module defines
    points(tier) -> list of JSON-able points (deterministic order)
    check_point(pt) -> (violations, nontrivial: bool|hashable|None, outcome_key: str, counters: dict, evals: int)
and calls  install(globals(), unit_size=...)  to obtain units/run_unit/replay.
"""
import hashlib

from . import space


def compress(vs):
    """Keep the smallest witness per (clause, sig), with occurrence counts."""
    best = {}
    for v in vs:
        k = (v["clause"], v.get("sig") or "unclassified")
        if k not in best:
            best[k] = dict(v, count=0)
        c = best[k]["count"] + v.get("count", 1)
        if v.get("size", 0) < best[k].get("size", 0):
            best[k] = dict(v)
        best[k]["count"] = c
    return list(best.values())


def install(ns, unit_size=200, sample_of=None):
    cache = {}

    def units(tier, seed):
        cache[tier] = ns["points"](tier)  # computed once; forked workers inherit it
        return [{"tier": tier, "range": list(r)} for r in space.chunks(len(cache[tier]), unit_size)]

    def run_unit(unit):
        tier = unit["tier"]
        if tier not in cache:
            cache[tier] = ns["points"](tier)
        pts = cache[tier][unit["range"][0]:unit["range"][1]]
        res = {"evals": 0, "nontrivial": set(), "outcomes": {}, "violations": [], "samples": [], "extra": {}}
        n_plain = 0
        for pt in pts:
            vio, nontriv, oc, counters, evals = ns["check_point"](pt)
            res["evals"] += evals
            if nontriv is True:
                n_plain += 1
            elif nontriv:
                res["nontrivial"].add(hashlib.blake2b(repr(nontriv).encode(), digest_size=8).hexdigest())
            res["outcomes"][oc] = res["outcomes"].get(oc, 0) + 1
            for k, v in (counters or {}).items():
                res["extra"][k] = res["extra"].get(k, 0) + v
            res["violations"].extend(vio)
        if n_plain:
            # points are distinct by construction, so plain True flags can be summed
            res["nontrivial"] = n_plain if not res["nontrivial"] else res["nontrivial"] | {
                "u%s-%d" % (unit["range"][0], i) for i in range(n_plain)}
        if pts:
            s = sample_of(pts[0]) if sample_of else pts[0]
            res["samples"].append(s)
        res["violations"] = compress(res["violations"])
        if "end_of_unit" in ns:
            ns["end_of_unit"]()   # e.g. removal of per-process scratch files
        return res

    def replay(witness):
        try:
            return ns["check_point"](witness["point"])[0]
        finally:
            if "end_of_unit" in ns:
                ns["end_of_unit"]()

    ns.setdefault("units", units)
    ns.setdefault("run_unit", run_unit)
    ns.setdefault("replay", replay)
