"""Canonical, comparable projections of lasio objects (DESIGN.md 2.4).

Nothing here calls lasio code beyond reading public attributes.
"""
import math

import numpy as np


def is_plain_literal(s):
    """Hand scanner (no regex, no float()): sign? digits [mark digits]? [e sign? digits]?
    Returns "int", "float" or None.  ASCII digits only; the mark is '.' only here."""
    i, n = 0, len(s)
    if n == 0:
        return None
    if s[i] in "+-":
        i += 1
    j = i
    while i < n and s[i] in "0123456789":
        i += 1
    if i == j:
        return None
    kind = "int"
    if i < n and s[i] == ".":
        k = i + 1
        i = k
        while i < n and s[i] in "0123456789":
            i += 1
        if i == k:
            return None
        kind = "float"
    if i < n and s[i] in "eE":
        i += 1
        if i < n and s[i] in "+-":
            i += 1
        k = i
        while i < n and s[i] in "0123456789":
            i += 1
        if i == k:
            return None
        kind = "float"
    if i != n:
        return None
    return kind


def value_tag(v, mode="strict"):
    if v is None:
        return ("none",)
    if isinstance(v, (bool, np.bool_)):
        return ("bool", bool(v))
    if isinstance(v, (int, np.integer)):
        return ("int", int(v)) if mode == "strict" else ("num", float(v))
    if isinstance(v, (float, np.floating)):
        f = float(v)
        if f != f:
            return ("nan",)
        return ("float", f.hex()) if mode == "strict" else ("num", f)
    if isinstance(v, str):
        if mode == "numeric":
            t = v.strip()
            if is_plain_literal(t):
                try:
                    f = float(t)
                    if math.isfinite(f):
                        return ("num", f)
                except ValueError:
                    pass
        return ("str", v)
    if isinstance(v, np.ndarray):
        return ("array", array_tag(v, mode))
    return ("other", type(v).__name__, repr(v))


def array_tag(a, mode="strict"):
    a = np.asarray(a)
    if a.dtype.kind == "f":
        mask = np.isnan(a)
        b = np.where(mask, 0.0, a).astype("<f8")
        if mode == "strict":
            return ("f", a.shape, mask.tobytes(), b.tobytes())
        return ("f", a.shape, mask.tobytes(), tuple(b.ravel().tolist()))
    if a.dtype.kind in "iu":
        if mode == "strict":
            return ("i", a.shape, tuple(a.ravel().tolist()))
        return ("f", a.shape, np.zeros(a.shape, bool).tobytes(), tuple(float(x) for x in a.ravel().tolist()))
    return (a.dtype.kind, a.shape, tuple(value_tag(x, mode) for x in a.ravel().tolist()))


def item_tag(it, mode="strict", session=True):
    t = (
        it.original_mnemonic,
        it.unit,
        value_tag(it.value, mode),
        it.descr,
    )
    if session:
        t = (it.mnemonic,) + t
    return t


def section_tag(sec, mode="strict", session=True):
    if isinstance(sec, str):
        return ("text", sec)
    return ("items", tuple(item_tag(i, mode, session) for i in sec))


def las_tag(las, mode="strict", session=True, data=True, skip_items=()):
    """Whole-file projection: sections in order, then curve arrays."""
    secs = []
    for name, sec in las.sections.items():
        if isinstance(sec, str):
            secs.append((name, ("text", sec)))
        else:
            items = tuple(
                item_tag(i, mode, session)
                for i in sec
                if (name, i.original_mnemonic) not in skip_items
            )
            secs.append((name, ("items", items)))
    out = {"sections": tuple(secs)}
    if data:
        out["curves"] = tuple(array_tag(c.data, mode) for c in las.curves)
    return out


def diff_tags(a, b, path=""):
    """First difference between two nested tuples/dicts, as a short string."""
    if type(a) != type(b):
        return "%s: %r != %r" % (path, _short(a), _short(b))
    if isinstance(a, dict):
        for k in sorted(set(a) | set(b)):
            if k not in a or k not in b:
                return "%s.%s: missing on one side" % (path, k)
            d = diff_tags(a[k], b[k], "%s.%s" % (path, k))
            if d:
                return d
        return None
    if isinstance(a, (tuple, list)):
        if len(a) != len(b):
            return "%s: length %d != %d (%s | %s)" % (path, len(a), len(b), _short(a), _short(b))
        for i, (x, y) in enumerate(zip(a, b)):
            d = diff_tags(x, y, "%s[%d]" % (path, i))
            if d:
                return d
        return None
    if a != b:
        return "%s: %r != %r" % (path, _short(a), _short(b))
    return None


def _short(x):
    s = repr(x)
    return s if len(s) < 160 else s[:157] + "..."
