"""Shared driver: binds to the working tree, fans work units out to worker
processes, merges their results, confirms violations by replay in fresh
interpreters, matches them against the committed known findings, writes the
evidence file and decides the exit status.

A check module (lasiomc.checks.cXX) provides

  PROPERTY, LEVEL ("exploration" | "model_checking" | "fault_enumeration"),
  RULE (str), ASSUMPTIONS (list of str)
  units(tier, seed)      -> list of JSON-able work-unit descriptors
  run_unit(unit)         -> dict: evals, nontrivial, outcomes{key:count},
                            violations[...], samples[...], and optionally
                            states, transitions, traces, max_depth, extra{}
  replay(witness)        -> list of violations reproduced from one witness
  bounds(tier)           -> dict describing the completed bounds (evidence)

A violation is a dict: clause, sig, witness, expected, observed, size, repro.
"""
import collections
import hashlib
import importlib
import json
import logging
import multiprocessing
import os
import random
import subprocess
import sys
import time
import traceback

ROOT = os.path.dirname(os.path.dirname(os.path.dirname(os.path.abspath(__file__))))
# VERIF_OUT / VERIF_EVIDENCE redirect the scratch output (replay files) and the evidence files; used only by
# seeded/run_all_seeded.py, which runs several patched scratch worktrees side by side
OUT = os.environ.get("VERIF_OUT") or os.path.join(ROOT, "out")
EVID = os.environ.get("VERIF_EVIDENCE") or os.path.join(ROOT, "evidence")
KNOWN = os.path.join(ROOT, "known_findings.json")

CHECKS = {
    "C%02d" % i: "lasiomc.checks.c%02d" % i for i in range(1, 21)
}


def bind_repo():
    """Import lasio from the tree under test and make sure that is what we got."""
    repo = os.path.realpath(os.environ.get("VERIF_REPO", "/repo"))
    if sys.path[0] != repo:
        sys.path.insert(0, repo)
    os.environ["LASIO_VERIF"] = "1"
    import lasio

    got = os.path.realpath(lasio.__file__)
    if not got.startswith(repo + os.sep):
        raise SystemExit("INTERNAL lasio imported from %s, expected under %s" % (got, repo))
    logging.disable(logging.CRITICAL)
    import warnings

    warnings.simplefilter("ignore")
    return repo


def _jsonable(x):
    """Make anything printable in a replay file / evidence sample."""
    import numpy as np

    if isinstance(x, dict):
        return {str(k): _jsonable(v) for k, v in x.items()}
    if isinstance(x, (list, tuple, set, frozenset)):
        return [_jsonable(v) for v in x]
    if isinstance(x, (np.integer,)):
        return int(x)
    if isinstance(x, (np.floating, float)):
        x = float(x)
        if x != x or x in (float("inf"), float("-inf")):
            return repr(x)
        return x
    if isinstance(x, np.ndarray):
        return _jsonable(x.tolist())
    if isinstance(x, (str, int, bool)) or x is None:
        return x
    if isinstance(x, bytes):
        return x.decode("latin-1")
    return repr(x)


def _worker(args):
    modname, unit = args
    mod = importlib.import_module(modname)
    try:
        res = mod.run_unit(unit)
    except Exception:
        return {"crash": traceback.format_exc(), "unit": unit}
    for v in res.get("violations", []):
        v["unit"] = unit
    return res


def load_known(prop):
    if not os.path.exists(KNOWN):
        return []
    with open(KNOWN) as f:
        data = json.load(f)
    return [e for e in data.get("findings", []) if e.get("property") == prop]


def _sig_hash(clause, sig):
    return hashlib.sha1(("%s|%s" % (clause, sig)).encode()).hexdigest()[:10]


def write_evidence(prop, payload):
    os.makedirs(EVID, exist_ok=True)
    path = os.path.join(EVID, "%s.json" % prop)
    tmp = path + ".tmp.%d" % os.getpid()
    with open(tmp, "w") as f:
        json.dump(_jsonable(payload), f, indent=1, sort_keys=True)
        f.write("\n")
    os.replace(tmp, path)
    return path


def confirm_by_replay(prop, path, clause, sig):
    """Re-run the witness twice in fresh interpreters; both must reproduce.  If the witness alone does
    not reproduce, the whole work unit that produced it is re-run from a fresh interpreter (the violation
    then needs the calls that preceded it inside the unit - a dependence on process history that is
    itself a defect); the replay file is marked accordingly."""
    ok, seen = _confirm(prop, path, clause, False)
    if ok:
        return ok, seen
    ok2, seen2 = _confirm(prop, path, clause, True)
    if ok2:
        with open(path) as f:
            rec = json.load(f)
        rec["replay_mode"] = "unit"
        rec["note"] = ("the witness does not fail when executed alone in a fresh interpreter; it fails when the work unit "
                       "below is executed from a fresh interpreter: the result depends on earlier calls in the same process")
        rec["replay"] = "./vcheck %s --replay %s" % (prop, path)
        with open(path, "w") as f:
            json.dump(rec, f, indent=1)
        return ok2, seen2
    return False, seen + seen2


def _confirm(prop, path, clause, unit_mode):
    vcheck = os.path.join(ROOT, "vcheck")
    seen = []
    for _ in range(2):
        p = subprocess.run(
            [vcheck, prop, "--replay", path] + (["--unit"] if unit_mode else []),
            stdout=subprocess.PIPE,
            stderr=subprocess.STDOUT,
            text=True,
            timeout=600,
        )
        ok = False
        for line in p.stdout.splitlines():
            if line.startswith("REPRODUCED ") and ("clause=%s " % clause) in line + " ":
                ok = True
        seen.append((p.returncode, ok, p.stdout[-2000:]))
    return all(s[1] for s in seen), seen


def do_replay(prop, mod, path, unit_mode=False):
    with open(path) as f:
        rec = json.load(f)
    want = rec.get("clause")
    if unit_mode or rec.get("replay_mode") == "unit":
        if rec.get("unit") is None:
            print("NOT-REPRODUCED property=%s clause=%s replay=%s (no work unit recorded)" % (prop, want, path))
            return 0
        res = mod.run_unit(rec["unit"])
        vs = [v for v in res.get("violations", []) if v["clause"] == want and (v.get("sig") or "unclassified") == rec.get("sig")]
    else:
        vs = mod.replay(rec["witness"])
    hit = [v for v in vs if v["clause"] == want] or vs
    if not hit:
        print("NOT-REPRODUCED property=%s clause=%s replay=%s" % (prop, want, path))
        return 0
    for v in hit[:5]:
        print("REPRODUCED property=%s clause=%s sig=%s" % (prop, v["clause"], v.get("sig")))
        print("  expected: %s" % (json.dumps(_jsonable(v.get("expected")))[:600]))
        print("  observed: %s" % (json.dumps(_jsonable(v.get("observed")))[:600]))
    print("VIOLATION property=%s replay=%s" % (prop, path))
    return 1


def main(argv):
    if not argv or argv[0] not in CHECKS:
        print(__doc__)
        print("usage: vcheck <C01..C20> [quick|thorough] [--replay FILE]")
        return 2
    prop = argv[0]
    tier = os.environ.get("VERIF_TIER", "quick")
    replay_path = None
    unit_mode = False
    rest = argv[1:]
    while rest:
        a = rest.pop(0)
        if a in ("quick", "thorough"):
            tier = a
        elif a == "--replay":
            replay_path = rest.pop(0)
        elif a == "--unit":
            unit_mode = True
        else:
            print("unknown argument %r" % a)
            return 2
    try:
        seed = int(os.environ.get("VERIF_SEED", "0"))
    except ValueError:
        seed = 0

    repo = bind_repo()
    try:
        mod = importlib.import_module(CHECKS[prop])
    except ModuleNotFoundError as e:
        print("INTERNAL no check module for %s (%s)" % (prop, e))
        return 2

    if replay_path:
        return do_replay(prop, mod, replay_path, unit_mode)

    t0 = time.time()
    units = list(mod.units(tier, seed))
    order = list(range(len(units)))
    random.Random(seed).shuffle(order)
    jobs = int(os.environ.get("VERIF_JOBS", "0")) or (os.cpu_count() or 4)
    jobs = max(1, min(jobs, len(units)))

    def one_pass(isolated):
        merged = {
            "evals": 0,
            "nontrivial": 0,
            "nontrivial_keys": set(),
            "outcomes": collections.Counter(),
            "states": 0,
            "state_keys": set(),
            "transitions": 0,
            "traces": 0,
            "max_depth": 0,
            "samples": [],
            "extra": collections.Counter(),
            "capped": False,
        }
        groups = {}  # (clause, sig) -> {"count", "best"}
        crashes = []

        def absorb(res):
            if "crash" in res:
                crashes.append(res)
                return
            merged["evals"] += res.get("evals", 0)
            nt = res.get("nontrivial", 0)
            if isinstance(nt, (set, frozenset, list)):
                merged["nontrivial_keys"].update(nt)
            else:
                merged["nontrivial"] += nt
            merged["outcomes"].update(res.get("outcomes", {}))
            st = res.get("states", 0)
            if isinstance(st, (set, frozenset, list)):
                merged["state_keys"].update(st)
            else:
                merged["states"] += st
            merged["transitions"] += res.get("transitions", 0)
            merged["traces"] += res.get("traces", 0)
            merged["max_depth"] = max(merged["max_depth"], res.get("max_depth", 0))
            merged["extra"].update(res.get("extra", {}))
            merged["capped"] = merged["capped"] or bool(res.get("capped"))
            if len(merged["samples"]) < 400:
                merged["samples"].extend(res.get("samples", [])[:3])
            for v in res.get("violations", []):
                key = (v["clause"], v.get("sig") or "unclassified")
                g = groups.setdefault(key, {"count": 0, "best": None})
                g["count"] += v.get("count", 1)
                b = g["best"]
                if b is None or (v.get("size", 0), json.dumps(_jsonable(v["witness"]), sort_keys=True)) < (
                    b.get("size", 0),
                    json.dumps(_jsonable(b["witness"]), sort_keys=True),
                ):
                    g["best"] = v

        work = [(CHECKS[prop], units[i]) for i in order]
        if jobs == 1:
            for w in work:
                absorb(_worker(w))
        else:
            ctx = multiprocessing.get_context("fork")
            # isolated pass: one fresh fork of this (clean) process per work unit, so that state a unit leaves
            # behind in module-level variables of lasio can never influence another unit
            with ctx.Pool(jobs, maxtasksperchild=1 if isolated else None) as pool:
                for res in pool.imap_unordered(_worker, work, chunksize=1):
                    absorb(res)

        if crashes:
            print("INTERNAL %d work unit(s) crashed in the harness; first:" % len(crashes))
            print(crashes[0]["crash"])
            print("unit:", json.dumps(_jsonable(crashes[0]["unit"]))[:500])
            return None

        # ---- violations: write replay files, confirm, match against known findings
        known = load_known(prop)
        open_known = {(e["clause"], e["sig"]): e for e in known if e.get("status") == "open"}
        os.makedirs(os.path.join(OUT, "violations"), exist_ok=True)
        new_groups = []
        known_hits = {}
        internal = []
        for (clause, sig), g in sorted(groups.items(), key=lambda kv: (kv[0][0], str(kv[0][1]))):
            v = g["best"]
            path = os.path.join(OUT, "violations", "%s-%s.json" % (prop, _sig_hash(clause, sig)))
            rec = {
                "property": prop,
                "clause": clause,
                "sig": sig,
                "witness": v["witness"],
                "expected": v.get("expected"),
                "observed": v.get("observed"),
                "occurrences_in_this_run": g["count"],
                "unit": v.get("unit"),
                "repro_py": v.get("repro"),
                "replay": "./vcheck %s --replay %s" % (prop, path),
            }
            with open(path, "w") as f:
                json.dump(_jsonable(rec), f, indent=1)
            g["path"] = path
            if (clause, sig) in open_known:
                known_hits[(clause, sig)] = g
            else:
                new_groups.append(((clause, sig), g))

        # confirm (at most the first 6 unknown groups are replayed; all are counted)
        reported = []
        for (clause, sig), g in new_groups[:6]:
            ok, seen = confirm_by_replay(prop, g["path"], clause, sig)
            if ok:
                reported.append(((clause, sig), g))
            else:
                internal.append(((clause, sig), g, seen))
        reported.extend(new_groups[6:])

        return merged, groups, known_hits, open_known, reported, internal

    # First pass with long-lived workers (fast).  If a violation reproduces neither from its witness nor
    # from its work unit in a fresh interpreter, state may have been carried from one unit to the next
    # inside a worker: the whole exploration is repeated with one fresh process per unit before judging.
    result = one_pass(False)
    if result is not None and result[5]:
        print("note: %d violation group(s) did not reproduce in isolation; repeating the exploration with one process per work unit"
              % len(result[5]))
        result = one_pass(True)
    if result is None:
        return 2
    merged, groups, known_hits, open_known, reported, internal = result

    nontrivial = merged["nontrivial"] + len(merged["nontrivial_keys"])
    states = merged["states"] + len(merged["state_keys"])
    rnd = random.Random(seed)
    samples = merged["samples"]
    if len(samples) > 8:
        samples = rnd.sample(samples, 8)
    coverage = {
        "evaluations": merged["evals"],
        "distinct_nontrivial": nontrivial,
        "rule": mod.RULE,
        "samples": samples,
        "exhaustive": not merged["capped"],
        "capped": merged["capped"],
        "work_units": len(units),
        "distinct_outcomes": len(merged["outcomes"]),
        "outcomes": dict(merged["outcomes"].most_common(40)),
        "bounds": mod.bounds(tier) if hasattr(mod, "bounds") else {},
        "counters": dict(merged["extra"]),
        "violation_groups": [
            {"clause": c, "sig": s, "occurrences": g["count"], "known": (c, s) in open_known}
            for (c, s), g in sorted(groups.items(), key=lambda kv: (kv[0][0], str(kv[0][1])))
        ],
        "repo": repo,
    }
    if mod.LEVEL == "model_checking":
        coverage.update(
            {
                "states": states,
                "transitions": merged["transitions"],
                "traces_validated_against_impl": merged["traces"],
                "max_depth": merged["max_depth"],
            }
        )
    if hasattr(mod, "coverage_extra"):
        coverage.update(mod.coverage_extra(tier, merged))
    wall = time.time() - t0
    payload = {
        "property_id": prop,
        "tier": tier,
        "seed": seed,
        "level": mod.LEVEL,
        "coverage": coverage,
        "assumptions": list(mod.ASSUMPTIONS),
        "wall_s": round(wall, 2),
        "violations": len(reported),
    }
    write_evidence(prop, payload)

    for (clause, sig), g in sorted(known_hits.items()):
        e = open_known[(clause, sig)]
        print("KNOWN-FINDING: property=%s %s [%s; clause=%s sig=%s; %d occurrence(s) this run; replay=%s]"
              % (prop, e["summary"], e["id"], clause, sig, g["count"], g["path"]))
    if internal:
        for (clause, sig), g, seen in internal:
            print("INTERNAL nondeterminism property=%s clause=%s sig=%s replay=%s" % (prop, clause, sig, g["path"]))
            print(seen[0][2])
        return 2
    if reported:
        for (clause, sig), g in reported[:10]:
            v = g["best"]
            print("VIOLATION property=%s replay=%s" % (prop, g["path"]))
            print("  clause=%s sig=%s occurrences=%d" % (clause, sig, g["count"]))
            print("  expected: %s" % json.dumps(_jsonable(v.get("expected")))[:400])
            print("  observed: %s" % json.dumps(_jsonable(v.get("observed")))[:400])
        if len(reported) > 10:
            print("  ... and %d more violation groups (see evidence)" % (len(reported) - 10))
        print("%s %s: %d evaluations, %d violation group(s), %.1fs" % (prop, tier, merged["evals"], len(reported), wall))
        return 1
    print("%s %s: OK  evaluations=%d distinct_nontrivial=%d outcomes=%d%s wall=%.1fs"
          % (prop, tier, merged["evals"], nontrivial, len(merged["outcomes"]),
             (" states=%d transitions=%d" % (states, merged["transitions"])) if mod.LEVEL == "model_checking" else "",
             wall))
    return 0
