"""Run a function in a forked child so that whatever it does to module-level
state cannot reach later work in this process."""
import os
import pickle
import traceback


def call(fn, *args):
    r, w = os.pipe()
    pid = os.fork()
    if pid == 0:
        code = 0
        try:
            os.close(r)
            try:
                data = pickle.dumps(("ok", fn(*args)))
            except BaseException:
                data = pickle.dumps(("err", traceback.format_exc()))
            with os.fdopen(w, "wb") as f:
                f.write(data)
        except BaseException:
            code = 1
        finally:
            os._exit(code)
    os.close(w)
    with os.fdopen(r, "rb") as f:
        data = f.read()
    os.waitpid(pid, 0)
    if not data:
        raise RuntimeError("isolated child died without a result")
    kind, res = pickle.loads(data)
    if kind == "err":
        raise RuntimeError("isolated child failed:\n" + res)
    return res
