"""Independent rendering of abstract LAS files to text (DESIGN.md 2.3).
Shares nothing with lasio/writer.py."""


def item_line(mn, unit="", value="", descr="", pads=None):
    """p0 MNEM p1 . UNIT p2 VALUE p3 : p4 DESCR p5"""
    p = pads or ("", "", " ", " ", " ", "")
    return "%s%s%s.%s%s%s%s:%s%s%s" % (p[0], mn, p[1], unit, p[2], value, p[3], p[4], descr, p[5])


def section(title, lines):
    return [title] + list(lines)


def render(sections, eol="\n", final_newline=True):
    """sections: list of lists of lines (first line = title)."""
    lines = []
    for sec in sections:
        lines.extend(sec)
    text = eol.join(lines)
    if final_newline:
        text += eol
    return text


def version_section(vers="2.0", wrap="NO", dlm=None, title="~Version", extra=()):
    lines = [item_line("VERS", "", vers, "version"), item_line("WRAP", "", wrap, "wrap mode")]
    if dlm:
        lines.append(item_line("DLM", "", dlm, "delimiter"))
    lines.extend(extra)
    return section(title, lines)


def well_section(null="-999.25", strt=None, stop=None, step=None, unit="M", extra=(), title="~Well", vers="2.0"):
    lines = []
    if strt is not None:
        lines.append(item_line("STRT", unit, strt, "start"))
        lines.append(item_line("STOP", unit, stop, "stop"))
        lines.append(item_line("STEP", unit, step, "step"))
    if null is not None:
        lines.append(item_line("NULL", "", null, "null value"))
    lines.extend(extra)
    return section(title, lines)


def curve_section(curves, title="~Curve"):
    """curves: list of (mnemonic, unit, value, descr)."""
    return section(title, [item_line(*c) for c in curves])


def std_curves(n, index_unit="M"):
    out = []
    for j in range(n):
        if j == 0:
            out.append(("DEPT", index_unit, "", "0 depth"))
        else:
            out.append(("C%d" % j, "U%d" % j, "%d%d" % (j, j), "%d curve %d" % (j, j)))
    return out


def data_rows(matrix_tokens, sep=" ", lead="", trail=""):
    """matrix_tokens: list of rows, each a list of token strings."""
    return [lead + sep.join(row) + trail for row in matrix_tokens]
