"""E3: I/O fault-point enumeration (DESIGN.md 2.2).

builtins.open / io.open are replaced for the duration of one call; every file
opened on a path inside `root` becomes a counting proxy around the real file
object.  A clean run records the operation trace; then the call is repeated
with OSError injected at operation k for every k.
"""
import builtins
import io
import os


class InjectedFault(OSError):
    pass


class Session(object):
    def __init__(self, root, inject_at=None):
        self.root = os.path.realpath(root)
        # None, one operation number, or several (a later fault only fires if the call survived the earlier ones)
        self.inject_at = set() if inject_at is None else ({inject_at} if isinstance(inject_at, int) else set(inject_at))
        self.fired_all = []
        self.count = 0
        self.trace = []
        self.proxies = []
        self.fired = None
        self._real_open = None

    # -- interposition
    def __enter__(self):
        self._real_open = builtins.open
        self._real_io_open = io.open
        sess = self
        real = self._real_open

        def fake_open(file, *args, **kwargs):
            f = real(file, *args, **kwargs)
            try:
                p = os.path.realpath(os.fspath(file)) if not isinstance(file, int) else None
            except TypeError:
                p = None
            if p is not None and (p == sess.root or p.startswith(sess.root + os.sep)):
                proxy = FileProxy(f, sess, len(sess.proxies))
                sess.proxies.append(proxy)
                return proxy
            return f

        builtins.open = fake_open
        io.open = fake_open
        return self

    def __exit__(self, *exc):
        builtins.open = self._real_open
        io.open = self._real_io_open
        return False

    def op(self, proxy, name):
        self.count += 1
        self.trace.append((proxy.ident, name))
        if self.count in self.inject_at:
            self.fired = (proxy.ident, name, self.count)
            self.fired_all.append(self.count)
            raise InjectedFault("injected fault at operation %d (%s on file #%d)" % (self.count, name, proxy.ident))

    def open_handles(self):
        return [p for p in self.proxies if not p._f.closed]

    def close_all(self):
        for p in self.proxies:
            try:
                p._f.close()
            except Exception:
                pass


class FileProxy(object):
    """Counts read/readline/iteration/seek/tell/write; everything else is delegated."""

    def __init__(self, f, sess, ident):
        object.__setattr__(self, "_f", f)
        object.__setattr__(self, "_sess", sess)
        object.__setattr__(self, "ident", ident)

    def __getattr__(self, name):
        return getattr(object.__getattribute__(self, "_f"), name)

    def read(self, *a):
        self._sess.op(self, "read")
        return self._f.read(*a)

    def readline(self, *a):
        self._sess.op(self, "readline")
        return self._f.readline(*a)

    def readlines(self, *a):
        self._sess.op(self, "readlines")
        return self._f.readlines(*a)

    def __iter__(self):
        return self

    def __next__(self):
        self._sess.op(self, "next")
        return next(self._f)

    def seek(self, *a):
        self._sess.op(self, "seek")
        return self._f.seek(*a)

    def tell(self):
        self._sess.op(self, "tell")
        return self._f.tell()

    def write(self, data):
        self._sess.op(self, "write")
        return self._f.write(data)

    def writelines(self, lines):
        self._sess.op(self, "writelines")
        return self._f.writelines(lines)

    def close(self):
        return self._f.close()

    def __enter__(self):
        self._f.__enter__()
        return self

    def __exit__(self, *exc):
        return self._f.__exit__(*exc)

    @property
    def closed(self):
        return self._f.closed
