#!/bin/bash
# usage: run_all.sh [quick|thorough] [seed]   - runs every registered check, prints one line each
tier=${1:-quick}; seed=${2:-0}
cd /verif
rc=0
for i in $(seq -w 1 20); do
  c=C$i
  s=$(date +%s)
  out=$(VERIF_SEED=$seed ./vcheck $c $tier 2>&1); code=$?
  e=$(date +%s)
  echo "$c exit=$code $((e-s))s $(echo "$out" | grep -c '^KNOWN-FINDING') known | $(echo "$out" | tail -1 | cut -c1-140)"
  if [ $code -ne 0 ]; then rc=1; echo "$out" | grep -A3 "VIOLATION\|INTERNAL" | head -20; fi
done
exit $rc
